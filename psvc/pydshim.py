"""psvc.pydshim -- the stand-in for ``pydantic`` seen by the real source under symbolic execution.

Only ``BaseModel`` is replaced.  ``Field``, ``PositiveInt``, ``StrictBool``, ``PositiveFloat``,
``ConfigDict`` are the *real* pydantic objects, so the field declarations of /repo are read as
they are.  Validation of a field value is

  * delegated to the real pydantic (``TypeAdapter(Annotated[annotation, FieldInfo])``) whenever the
    value contains no symbolic proxy -- the real validator decides acceptance and coercion;
  * done here for symbolic integers / booleans: the declared constraints (``gt/ge/lt/le`` metadata of
    the real FieldInfo / Annotated type, ``Literal`` members, ``Union`` alternatives, ``List``/``Tuple``/
    ``Dict`` element types, ``min_length``) become a z3 acceptance predicate, on which the path forks:
    accepted, or ``ValidationError``.

Assumed about pydantic (listed in every evidence file): it enforces exactly the declared constraints;
defaults are not validated; defaults are copied per instance (``smart_deepcopy``); attribute assignment
after construction is not validated; unknown keyword -> ValidationError under ``extra='forbid'``.
"""
import typing
from typing import Any, Union, Literal, get_origin, get_args, Annotated

import annotated_types as at
import pydantic
from pydantic import Field, PositiveInt, StrictBool, PositiveFloat, ConfigDict  # noqa: F401 re-exported
from pydantic.fields import FieldInfo
from pydantic_core import PydanticUndefined
from pydantic._internal._utils import smart_deepcopy
import z3

from . import sym
from .sym import SymInt, SymBool, SymReal, is_sym, contains_sym, current


class ValidationError(ValueError):
    """raised where the real pydantic would raise pydantic.ValidationError (a ValueError subclass)"""


_adapters = {}


def _native_validate(ann, finfo, value, config_arbitrary=True):
    key = (repr(ann), id(finfo))
    ta = _adapters.get(key)
    if ta is None:
        t = ann
        if finfo is not None and finfo.metadata:
            t = Annotated[(ann, *finfo.metadata)]
        ta = pydantic.TypeAdapter(t, config=ConfigDict(arbitrary_types_allowed=True))
        _adapters[key] = ta
    try:
        return ta.validate_python(value)
    except pydantic.ValidationError as e:
        raise ValidationError(str(e)) from None


def _constraints_of(metadata):
    cs = []
    for m in metadata:
        if isinstance(m, at.Gt):
            cs.append((">", m.gt))
        elif isinstance(m, at.Ge):
            cs.append((">=", m.ge))
        elif isinstance(m, at.Lt):
            cs.append(("<", m.lt))
        elif isinstance(m, at.Le):
            cs.append(("<=", m.le))
        elif isinstance(m, at.MinLen):
            cs.append(("minlen", m.min_length))
        elif isinstance(m, at.MaxLen):
            cs.append(("maxlen", m.max_length))
        elif isinstance(m, at.Interval):
            for op, v in ((">", m.gt), (">=", m.ge), ("<", m.lt), ("<=", m.le)):
                if v is not None:
                    cs.append((op, v))
        elif isinstance(m, at.Strict) or type(m).__name__ == "Strict":
            cs.append(("strict", True))
        elif isinstance(m, FieldInfo):
            cs.extend(_constraints_of(m.metadata))
        elif type(m).__name__ == "_PydanticGeneralMetadata":
            d = getattr(m, "__dict__", {})
            if d.get("strict"):
                cs.append(("strict", True))
        else:
            cs.append(("other", m))
    return cs


class _Reject(Exception):
    pass


def _sym_validate(ann, metadata, value):
    """symbolic validation; returns the validated value or raises _Reject.
    May fork the current path on the acceptance predicate."""
    origin = get_origin(ann)
    if origin is Annotated:
        base, *meta = get_args(ann)
        return _sym_validate(base, list(meta) + list(metadata), value)
    cs = _constraints_of(metadata)
    if ann is Any:
        return value
    if origin is Union:
        members = get_args(ann)
        errors = []
        # pydantic 'smart' union: exact-type match first; a symbolic int is exactly an int
        ordered = sorted(members, key=lambda m: 0 if _exact(m, value) else 1)
        for m in ordered:
            try:
                return _sym_validate(m, metadata, value)
            except _Reject as e:
                errors.append(e)
        raise _Reject(f"no union member accepts {value!r}")
    if ann is type(None) or ann is None:
        if value is None:
            return None
        raise _Reject("not None")
    if origin is Literal:
        members = get_args(ann)
        if is_sym(value):
            for m in members:
                if isinstance(m, (int, bool)) and not isinstance(m, str):
                    if bool(value == m):
                        return m
            raise _Reject("literal")
        if value in members:
            return value
        raise _Reject("literal")
    if ann is int or ann is float:
        if isinstance(value, SymBool):
            raise sym.Unsupported("symbolic bool given to an int field")
        if isinstance(value, (SymInt, SymReal)):
            if ann is int and isinstance(value, SymReal):
                raise sym.Unsupported("symbolic real given to an int field")
            for op, bound in cs:
                if op in (">", ">=", "<", "<="):
                    ok = {">": value > bound, ">=": value >= bound, "<": value < bound, "<=": value <= bound}[op]
                    if not ok:  # forks
                        raise _Reject(f"{op} {bound}")
                elif op == "strict":
                    pass
                else:
                    raise sym.Unsupported(f"constraint {op} on symbolic int")
            return value
        if is_sym(value):
            raise _Reject("type")
        return _leaf(ann, metadata, value)
    if ann is bool:
        if isinstance(value, SymBool):
            return value
        if isinstance(value, (SymInt, SymReal)):
            raise sym.Unsupported("symbolic int given to a bool field")
        return _leaf(ann, metadata, value)
    if origin in (list, typing.List):
        (elem,) = get_args(ann) or (Any,)
        if not isinstance(value, (list, tuple, set, frozenset)) or isinstance(value, z3.ExprRef):
            # dict views, generators are accepted by pydantic in lax mode for list
            if type(value).__name__ in ("dict_values", "dict_keys", "generator"):
                value = list(value)
            else:
                raise _Reject("not a list")
        out = [_sym_validate(elem, [], v) for v in value]
        for op, bound in cs:
            if op == "minlen" and len(out) < bound:
                raise _Reject("min_length")
            if op == "maxlen" and len(out) > bound:
                raise _Reject("max_length")
        return out
    if origin in (tuple, typing.Tuple):
        args = get_args(ann)
        if not isinstance(value, (list, tuple)):
            raise _Reject("not a tuple")
        if len(args) == 2 and args[1] is Ellipsis:
            return tuple(_sym_validate(args[0], [], v) for v in value)
        if len(args) != len(value):
            raise _Reject("tuple length")
        return tuple(_sym_validate(a, [], v) for a, v in zip(args, value))
    if origin in (dict, typing.Dict):
        ka, va = get_args(ann) or (Any, Any)
        if not isinstance(value, dict):
            raise _Reject("not a dict")
        return {_sym_validate(ka, [], k): _sym_validate(va, [], v) for k, v in value.items()}
    if isinstance(ann, type):
        if is_sym(value):
            # a symbolic python number is not an instance of a z3 class for pydantic's isinstance check:
            # natively the value is an int, which z3.ArithRef / BoolRef do not accept
            raise _Reject("type")
        return _leaf(ann, metadata, value)
    return _leaf(ann, metadata, value)


def _exact(member, value):
    if isinstance(value, SymInt):
        return member is int
    if isinstance(value, SymBool):
        return member is bool
    if isinstance(value, SymReal):
        return member is float
    if isinstance(member, type):
        return type(value) is member
    return False


def _leaf(ann, metadata, value):
    if contains_sym(value):
        raise sym.Unsupported(f"symbolic value {value!r} for annotation {ann}")
    fi = None
    t = ann
    if metadata:
        t = Annotated[(ann, *metadata)]
    try:
        return _native_validate(t, None, value)
    except ValidationError as e:
        raise _Reject(str(e)) from None


def validate_field(cls_name, name, ann, finfo, value):
    metadata = list(finfo.metadata) if finfo is not None else []
    if not contains_sym(value):
        try:
            return _native_validate(ann, finfo, value)
        except ValidationError as e:
            raise ValidationError(f"{cls_name}.{name}: {e}") from None
    try:
        return _sym_validate(ann, metadata, value)
    except _Reject as e:
        raise ValidationError(f"{cls_name}.{name}: {e} (value {value!r})") from None


def norm_ann(ann):
    """the engine's ``int`` stand-in (loader._IntMeta) is mapped back to the real ``int``"""
    if isinstance(ann, type) and ann.__dict__.get("_psvc_int", False):
        return int
    if isinstance(ann, type) and ann.__dict__.get("_psvc_real", None) is not None:
        return ann.__dict__["_psvc_real"]  # the engine's ``timedelta`` stand-in (timeabs)
    origin = get_origin(ann)
    if origin is None:
        return ann
    args = get_args(ann)
    if origin is Annotated:
        return Annotated[(norm_ann(args[0]), *args[1:])]
    if origin is Literal:
        return ann
    new = tuple(a if a is Ellipsis else norm_ann(a) for a in args)
    if origin is Union:
        return Union[new]
    generic = {list: typing.List, dict: typing.Dict, tuple: typing.Tuple, set: typing.Set}.get(origin, origin)
    try:
        return generic[new] if len(new) != 1 else generic[new[0]]
    except TypeError:
        return ann


class ModelMeta(type):
    def __new__(mcls, name, bases, ns, **kw):
        cls = super().__new__(mcls, name, bases, ns, **kw)
        own = {}
        anns = ns.get("__annotations__", {})
        for fname, ann in anns.items():
            if fname.startswith("_") or fname == "model_config":
                continue
            if get_origin(ann) is typing.ClassVar:
                continue
            default = ns.get(fname, PydanticUndefined)
            if isinstance(default, FieldInfo):
                finfo = default
            else:
                finfo = FieldInfo(default=default) if default is not PydanticUndefined else FieldInfo()
            own[fname] = (norm_ann(ann), finfo)
        cls.__psvc_own_fields__ = own
        fields = {}
        for klass in reversed(cls.__mro__):
            fields.update(klass.__dict__.get("__psvc_own_fields__", {}))
        cls.__psvc_fields__ = fields
        # the introspection attribute of real pydantic models: field name -> FieldInfo
        cls.model_fields = {k: v[1] for k, v in fields.items()}
        # pydantic removes field defaults from the class namespace
        for fname in list(fields):
            if fname in cls.__dict__:
                try:
                    delattr(cls, fname)
                except AttributeError:
                    pass
        cfg = {}
        for klass in reversed(cls.__mro__):
            c = klass.__dict__.get("model_config")
            if c:
                cfg.update(c)
        cls.__psvc_config__ = cfg
        return cls


class BaseModel(metaclass=ModelMeta):
    model_config = {}

    def __init__(self, **data):
        cls = type(self)
        fields = cls.__psvc_fields__
        extra = [k for k in data if k not in fields]
        if extra:
            if cls.__psvc_config__.get("extra") == "forbid":
                raise ValidationError(f"{cls.__name__}: extra inputs are not permitted: {extra}")
        fvals, mvals = _validators_of(cls)
        for fn, mode in mvals:
            if mode == "before":
                data = fn(cls, data)
        for fname, (ann, finfo) in fields.items():
            if fname in data:
                raw = data[fname]
                for fn, names, mode in fvals:
                    if mode in ("before", "plain") and (fname in names or "*" in names):
                        raw = fn(cls, raw)
                value = validate_field(cls.__name__, fname, ann, finfo, raw)
                for fn, names, mode in fvals:
                    if mode == "after" and (fname in names or "*" in names):
                        value = fn(cls, value)
            else:
                if finfo.default_factory is not None:
                    value = finfo.default_factory()
                elif finfo.default is PydanticUndefined:
                    raise ValidationError(f"{cls.__name__}.{fname}: field required")
                else:
                    value = smart_deepcopy(finfo.default)
            object.__setattr__(self, fname, value)
        for fn, mode in mvals:
            if mode == "after":
                fn(self)

    def __setattr__(self, name, value):
        if not name.startswith("_") and name not in type(self).__psvc_fields__:
            raise ValueError(f'"{type(self).__name__}" object has no field "{name}"')
        current().stores.append((self, name))
        object.__setattr__(self, name, value)

    # pydantic models are hashable only if the class says so; the repo defines __hash__/__eq__ itself
    def __eq__(self, other):
        return self is other

    def __hash__(self):
        return id(self)

    def __repr__(self):
        return f"<{type(self).__name__} {getattr(self, 'name', '?')}>"

    def __str__(self):
        return self.__repr__()

    def __deepcopy__(self, memo):
        # real pydantic deep-copies default model instances; identity (_uid) is preserved by that copy
        import copy

        new = object.__new__(type(self))
        memo[id(self)] = new
        for k, v in self.__dict__.items():
            object.__setattr__(new, k, copy.deepcopy(v, memo))
        return new

    def model_dump(self, **kw):
        """field name -> value (nested models are returned as they are: enough for introspection)"""
        exclude = kw.get("exclude") or ()
        if isinstance(exclude, str):
            exclude = (exclude,)
        return {k: getattr(self, k) for k in type(self).__psvc_fields__ if k not in exclude}

    def model_copy(self, **kw):
        import copy

        new = copy.copy(self)
        for k, v in (kw.get("update") or {}).items():
            object.__setattr__(new, k, v)
        return new

    def model_dump_json(self, **kw):
        # the JSON layer is pydantic's (checked natively, C16): under the engine the text is a token that stands
        # for "the JSON of this object"; writing it to a (ghost) file records which object was written
        return GhostJson(self, kw)

    @classmethod
    def model_validate_json(cls, s):
        raise sym.Unsupported("model_validate_json under symbolic execution (JSON layer is pydantic's)")


class GhostJson(str):
    """stands for the JSON text of a model object (never parsed under the engine)"""

    def __new__(cls, model, kw):
        o = str.__new__(cls, f"<json of {type(model).__name__}>")
        o.model = model
        o.kw = dict(kw)
        return o


def _passthrough_decorator(*a, **kw):
    if len(a) == 1 and callable(a[0]) and not kw:
        return a[0]

    def deco(f):
        return f

    return deco


# serialisation hooks only matter to the JSON layer (pydantic's, checked natively): no-ops under the engine
model_serializer = _passthrough_decorator
field_serializer = _passthrough_decorator
computed_field = _passthrough_decorator


def field_validator(*fields, mode="after", **kw):
    """pydantic's field validators run around the declared validation of the named fields (before / after)"""

    def deco(f):
        fn = f.__func__ if isinstance(f, (classmethod, staticmethod)) else f
        fn.__psvc_field_validator__ = (tuple(fields), mode)
        return f

    return deco


def model_validator(*, mode="after", **kw):
    def deco(f):
        fn = f.__func__ if isinstance(f, (classmethod, staticmethod)) else f
        fn.__psvc_model_validator__ = mode
        return f

    return deco


def _validators_of(cls):
    fv, mv = [], []
    for klass in reversed(cls.__mro__):
        for v in klass.__dict__.values():
            fn = v.__func__ if isinstance(v, (classmethod, staticmethod)) else v
            if hasattr(fn, "__psvc_field_validator__"):
                fv.append((fn,) + fn.__psvc_field_validator__)
            if hasattr(fn, "__psvc_model_validator__"):
                mv.append((fn, fn.__psvc_model_validator__))
    return fv, mv


def __getattr__(name):
    """any other name of the pydantic API is the real one (types, aliases, exceptions ...)"""
    try:
        return getattr(pydantic, name)
    except AttributeError:
        raise AttributeError(f"module 'pydantic' has no attribute {name!r}") from None
