"""psvc.loopcut -- the mechanical loop-cut transformation for functions that carry a loop contract.

For a loop `while T: BODY` (or `for x in E: BODY`) of a function under a loop contract with declared
state variables (v1..vn) and body-local temporaries, the source is rewritten -- on every run, from the
AST of the real file -- into

    (v1, .., vn) = __psvc_loop_enter__(KEY, (v1, .., vn), locals())
    while T:
        BODY                      # unchanged; `break` leaves the loop as before
        __psvc_loop_back__(KEY, (v1, .., vn), locals())

`__psvc_loop_enter__` checks that the invariant holds of the state on entry and returns an *arbitrary*
state satisfying the invariant (the exploration forks over the invariant's cases); `__psvc_loop_back__`
checks that the invariant is re-established after one execution of the body and ends the path.  Paths
that leave through `break` run the real code after the loop, where the function's postcondition is
checked.  This is the usual Hoare rule for loops: (init) + (preservation for one arbitrary iteration)
+ (invariant /\\ exit => post), so every iteration count is covered.

What the transformation changes is exactly the two inserted calls.  It refuses (Unsupported, i.e.
undecided) when the body carries a local name from one iteration to the next that the contract does not
declare as state (a new body-local temporary is accepted), or contains a `continue` / `return` (none of
the loops under contract do).
"""
import ast

from . import sym

ACTIVE = {}  # KEY -> handler (set by the contract before the scenario runs)


def _loops_of(fn):
    out = []

    class V(ast.NodeVisitor):
        def visit_While(self, n):
            out.append(n)
            self.generic_visit(n)

        def visit_For(self, n):
            out.append(n)
            self.generic_visit(n)

        def visit_FunctionDef(self, n):
            if n is fn:
                self.generic_visit(n)

        visit_Lambda = lambda self, n: None  # noqa: E731

    V().visit(fn)
    return out


def _assigned_names(nodes):
    names = set()
    for node in nodes:
        for n in ast.walk(node):
            if isinstance(n, ast.Name) and isinstance(n.ctx, (ast.Store, ast.Del)):
                names.add(n.id)
            elif isinstance(n, (ast.Continue, ast.Return)):
                raise sym.Unsupported("loop under contract contains continue/return")
    return names


def transform(tree, modname, loop_contracts):
    """loop_contracts: {f"{modname}.{Class}.{func}#{k}": spec} with spec.state / spec.temps name lists"""
    for key, spec in loop_contracts.items():
        qual, _, k = key.partition("#")
        k = int(k or 0)
        parts = qual[len(modname) + 1 :].split(".")
        node = tree
        for p in parts:
            node = next(c for c in ast.iter_child_nodes(node) if isinstance(c, (ast.ClassDef, ast.FunctionDef)) and c.name == p)
        loops = _loops_of(node)
        loop = loops[k]
        assigned = _assigned_names(loop.body)
        if isinstance(loop, ast.For):
            assigned |= _assigned_names([loop.target])
        undeclared = assigned - set(spec.state) - set(spec.temps)
        if undeclared:
            # a new local is harmless when it is re-initialised in every iteration (first occurrence in the
            # body is a plain store): it carries nothing from one iteration to the next
            from . import foreach

            first = {}
            for n, k in foreach._occurrences(loop.body):
                first.setdefault(n, k)
            undeclared = {n for n in undeclared if first.get(n) != "store"}
        if undeclared:
            raise sym.Unsupported(f"loop {key} carries undeclared variables {sorted(undeclared)} from one iteration to the next")
        names = list(spec.state)

        def tup(ctx):
            return ast.Tuple(elts=[ast.Name(id=n, ctx=ctx()) for n in names], ctx=ctx())

        def call(fname):
            return ast.Call(
                func=ast.Name(id=fname, ctx=ast.Load()),
                args=[ast.Constant(value=key), tup(ast.Load), ast.Call(func=ast.Name(id="locals", ctx=ast.Load()), args=[], keywords=[])],
                keywords=[],
            )

        enter = ast.Assign(targets=[tup(ast.Store)], value=call("__psvc_loop_enter__"))
        back = ast.Expr(value=call("__psvc_loop_back__"))
        loop.body.append(back)
        # insert `enter` just before the loop in its parent body
        for parent in ast.walk(node):
            for field in ("body", "orelse", "finalbody"):
                body = getattr(parent, field, None)
                if isinstance(body, list) and loop in body:
                    body.insert(body.index(loop), enter)
                    break
        ast.fix_missing_locations(tree)
    return tree


def loop_enter(key, values, locs):
    h = ACTIVE.get(key)
    if h is None:
        return values
    return h.enter(key, values, locs)


def loop_back(key, values, locs):
    h = ACTIVE.get(key)
    if h is None:
        return None
    return h.back(key, values, locs)


class LoopSpec:
    def __init__(self, state, temps=()):
        self.state = list(state)
        self.temps = list(temps)
