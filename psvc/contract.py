"""psvc.contract -- sidecar contracts on the real functions, and the obligations they generate.

A contract is registered for one function of /repo (``target``; the helpers it inlines are listed in
``inlines``).  It provides

  cases(tier)           the structural case split (classes, kinds, optional flags, None-ness, shapes)
  scenario(ps, P, case) ordinary public-API code that reaches the target; ``P.int(name)`` / ``P.bool(name)``
                        are the symbolic parameters; ``P.assume(c)`` states the precondition (requires)
  raises(P, case)       [(exception class name, condition)] : raises_iff clauses
  clauses(P, ctx, case) the postconditions, each a Clause(hyps => goal) tagged with the properties it serves

The same scenario text is executed (a) by the symbolic engine on the real source, every path, and
(b) natively by CPython on the real library with concrete parameters (differential check, replay).
"""
import fnmatch
import importlib
import json
import os
import sys
import time
import traceback

import z3

from . import sym, loader, ghost
from .sym import SymInt, SymBool, SymReal, is_sym

REGISTRY = {}


def T(x):
    """z3 term of a (possibly symbolic) python value or z3 expression"""
    if is_sym(x):
        return x.term
    if isinstance(x, z3.ExprRef):
        return x
    return sym._term(x)


def And(*xs):
    xs = [T(x) for x in _flat(xs)]
    return z3.And(*xs) if xs else z3.BoolVal(True)


def Or(*xs):
    xs = [T(x) for x in _flat(xs)]
    return z3.Or(*xs) if xs else z3.BoolVal(False)


def Not(x):
    return z3.Not(T(x))


def Implies(a, b):
    return z3.Implies(T(a), T(b))


def If(c, a, b):
    return z3.If(T(c), T(a), T(b))


def Iff(a, b):
    return T(a) == T(b)


def _flat(xs):
    for x in xs:
        if isinstance(x, (list, tuple)):
            yield from _flat(x)
        else:
            yield x


class OutsidePrecondition(Exception):
    pass


class Params:
    """the symbolic (or, natively, concrete) inputs of a scenario"""

    def __init__(self, values=None):
        self.values = values  # None: symbolic
        self.terms = {}
        self.order = []
        self.assumed = []
        self.pins = {}  # native replays: unknown name -> value, to steer the real solver to a counterexample

    @property
    def symbolic(self):
        return self.values is None

    def int(self, name, lo=None, hi=None):
        if name not in self.terms:
            self.terms[name] = z3.Int("P_" + name)
            self.order.append(name)
            v = self._get(name)
            if lo is not None:
                self.assume(v >= lo)
            if hi is not None:
                self.assume(v <= hi)
        return self._get(name)

    def bool(self, name):
        if name not in self.terms:
            self.terms[name] = z3.Bool("P_" + name)
            self.order.append(name)
        return self._get(name)

    def _get(self, name):
        t = self.terms[name]
        if self.values is None:
            return SymBool(t) if z3.is_bool(t) else SymInt(t)
        if name not in self.values:
            # a parameter the counterexample does not constrain (created after the point where the path ended)
            self.values[name] = False if z3.is_bool(t) else 0
        return self.values[name]

    def __getitem__(self, name):
        return self._get(name)

    def apply_pins(self, ps):
        """(native replay only) pin the schedule unknowns of a counterexample with extra constraints"""
        for name, val in self.pins.items():
            var = z3.Bool(name) if isinstance(val, bool) else z3.Int(name)
            ps.ConstraintFromExpression(expression=(var == val))

    def assume(self, cond):
        """precondition of the scenario"""
        if self.values is None:
            if isinstance(sym.current(), sym._NoPath):
                return  # spec code re-reading its parameters after the path has ended
            t = T(cond)
            self.assumed.append(t)
            sym.current().assume(t)
        else:
            self.assumed.append(cond)
            if isinstance(cond, z3.ExprRef):
                cond = z3.is_true(z3.simplify(cond))  # a ground formula over the concrete parameter values
            if not cond:
                raise OutsidePrecondition()


class Clause:
    """PC /\\ hyps => goal.  kind is informative: sound | complete | equals | state | frame | raises | lemma"""

    def __init__(self, name, goal, hyps=(), props=(), kind="sound", bounded=None, regions=None, note=None):
        self.name = name
        self.goal = T(goal)
        self.hyps = [T(h) for h in _flat([hyps])]
        self.props = tuple(props)
        self.kind = kind
        self.bounded = bounded  # None: unbounded obligation; else a text stating the bound
        self.regions = {k: T(v) for k, v in (regions or {}).items()}
        self.note = note


class Contract:
    target = None  # 'module.Class.method' relative to processscheduler
    inlines = ()
    props = ()
    bounded = None

    def cases(self, tier):
        return [{}]

    def scenario(self, ps, P, case):
        raise NotImplementedError

    def raises(self, P, case):
        return []

    def clauses(self, P, ctx, case):
        return []

    # sentinel: a deliberately wrong clause that must be refuted (vacuity guard)
    def sentinels(self, P, ctx, case):
        return []


def register(cls):
    inst = cls()
    inst.id = cls.__name__
    if inst.id in REGISTRY and type(REGISTRY[inst.id]).__module__ != cls.__module__:
        raise RuntimeError(f"two contracts are called {inst.id}")
    REGISTRY[inst.id] = inst
    return cls


def case_id(case):
    if not case:
        return ""
    return ",".join(f"{k}={_cv(v)}" for k, v in case.items())


def _cv(v):
    if isinstance(v, (list, tuple)):
        return "(" + ";".join(_cv(x) for x in v) + ")"
    if isinstance(v, type):
        return v.__name__
    return str(v)


def asserted(solver_obj):
    """the formulas handed to the z3 solver by SchedulingSolver (ghost or real)"""
    s = solver_obj._solver
    if isinstance(s, ghost.GhostSolver):
        return s.stack()
    fs = list(s.assertions())
    # debug mode: z3 shows assert_and_track(f, p) as Implies(p, f).  A tracking literal is recognised by its role, not
    # by its name: a Boolean constant that is the antecedent of such top-level implications (a literal that also occurs
    # inside the formulas is an unknown of the model as well: it is reported as a fact, which is what z3 assumes)
    cands = [f for f in fs if z3.is_implies(f) and z3.is_const(f.arg(0)) and f.arg(0).decl().kind() == z3.Z3_OP_UNINTERPRETED]
    if not cands or len(cands) != len(fs):
        return fs  # not the diagnosis mode: there every assertion is tracked
    inside = set()
    seen = set()
    todo = [f.arg(1) if any(f is c for c in cands) else f for f in fs]
    while todo:
        e = todo.pop()
        if e.get_id() in seen:
            continue
        seen.add(e.get_id())
        if z3.is_quantifier(e):
            todo.append(e.body())
            continue
        if z3.is_const(e) and z3.is_bool(e) and e.decl().kind() == z3.Z3_OP_UNINTERPRETED:
            inside.add(e.decl().name())
        todo.extend(e.children())
    out, forced = [], {}
    for f in fs:
        if any(f is c for c in cands):
            # every check() assumes the tracking literals: `p => f` under the assumption p is f -- and p itself, which
            # matters when p is also an unknown of the model
            if f.arg(0).decl().name() in inside:
                forced.setdefault(f.arg(0).decl().name(), f.arg(0))
            f = f.arg(1)
        out.append(f)
    return out + list(forced.values())


def assertions_of(obj):
    """flattened assertion list of a model element (constraint.get_z3_assertions() may nest lists)"""
    return ghost.flatten_assertions([obj.get_z3_assertions()])


def load_contracts():
    d = os.path.join(os.path.dirname(os.path.dirname(os.path.abspath(__file__))), "contracts")
    for fn in sorted(os.listdir(d)):
        if fn.endswith(".py") and not fn.startswith("_"):
            importlib.import_module(f"contracts.{fn[:-3]}")
    return REGISTRY
