"""psvc.timeabs -- calendar values abstracted to integers (microseconds): exact integer arithmetic, no overflow.

TD/DT are subclasses of timedelta/datetime (so isinstance checks and pydantic's assignment accept them) whose
value is the attribute ``us`` -- a symbolic int under the engine.  They answer the public API of the real
classes from that integer (days / seconds / microseconds / total_seconds(), + - * // comparisons), and the
``datetime`` module seen by the code under verification builds them whenever a symbolic number reaches the
``timedelta(...)`` constructor -- so that code which takes a calendar value apart and rebuilds it stays inside
the abstraction.  Natively the scenarios use the real classes; ``us_of`` reads both.

Assumed (not proved): that datetime.timedelta/datetime implement exactly this integer arithmetic (they are
documented to: a timedelta is a normalised (days, seconds, microseconds) triple of an exact integer number of
microseconds)."""
import datetime
import types

US_SECOND = 10**6
US_DAY = 86400 * US_SECOND
EPOCH = datetime.datetime(2000, 1, 1)
_ONE_US = datetime.timedelta(microseconds=1)


def _is_real_number(x):
    return isinstance(x, (int, float)) and not hasattr(x, "term")


class TD(datetime.timedelta):
    __psvc_scalar__ = True

    def __new__(cls, us):
        o = datetime.timedelta.__new__(cls, 0)
        o.us = us
        return o

    # ---- the (days, seconds, microseconds) view of the real class
    @property
    def days(self):
        return self.us // US_DAY

    @property
    def seconds(self):
        return (self.us // US_SECOND) % 86400

    @property
    def microseconds(self):
        return self.us % US_SECOND

    def total_seconds(self):
        return self.us / US_SECOND

    # ---- arithmetic
    def __mul__(self, k):
        if isinstance(k, datetime.timedelta):
            return NotImplemented
        return TD(k * self.us)

    __rmul__ = __mul__

    def __add__(self, o):
        if isinstance(o, datetime.datetime):
            return DT(self.us + us_of(o))
        if isinstance(o, datetime.timedelta):
            return TD(self.us + us_of(o))
        return NotImplemented

    __radd__ = __add__

    def __sub__(self, o):
        if isinstance(o, datetime.timedelta):
            return TD(self.us - us_of(o))
        return NotImplemented

    def __rsub__(self, o):
        if isinstance(o, datetime.datetime):
            return DT(us_of(o) - self.us)
        if isinstance(o, datetime.timedelta):
            return TD(us_of(o) - self.us)
        return NotImplemented

    def __neg__(self):
        return TD(-self.us)

    def __floordiv__(self, o):
        if isinstance(o, datetime.timedelta):
            return self.us // us_of(o)
        return TD(self.us // o)

    def __eq__(self, o):
        return isinstance(o, datetime.timedelta) and self.us == us_of(o)

    def __ne__(self, o):
        return not isinstance(o, datetime.timedelta) or self.us != us_of(o)

    def __lt__(self, o):
        return self.us < us_of(o)

    def __le__(self, o):
        return self.us <= us_of(o)

    def __gt__(self, o):
        return self.us > us_of(o)

    def __ge__(self, o):
        return self.us >= us_of(o)

    __hash__ = object.__hash__

    def __bool__(self):
        return bool(self.us != 0)

    def __repr__(self):
        return f"TD({self.us})"

    __str__ = __repr__

    def __deepcopy__(self, memo):
        return self

    def __reduce__(self):
        return (TD, (self.us,))


class DT(datetime.datetime):
    __psvc_scalar__ = True

    def __new__(cls, us):
        o = datetime.datetime.__new__(cls, 2000, 1, 1)
        o.us = us
        return o

    def __add__(self, o):
        if isinstance(o, datetime.timedelta):
            return DT(self.us + us_of(o))
        return NotImplemented

    __radd__ = __add__

    def __sub__(self, o):
        if isinstance(o, datetime.datetime):
            return TD(self.us - us_of(o))
        if isinstance(o, datetime.timedelta):
            return DT(self.us - us_of(o))
        return NotImplemented

    def __rsub__(self, o):
        if isinstance(o, datetime.datetime):
            return TD(us_of(o) - self.us)
        return NotImplemented

    def __eq__(self, o):
        return isinstance(o, datetime.datetime) and self.us == us_of(o)

    def __ne__(self, o):
        return not isinstance(o, datetime.datetime) or self.us != us_of(o)

    def __lt__(self, o):
        return self.us < us_of(o)

    def __le__(self, o):
        return self.us <= us_of(o)

    def __gt__(self, o):
        return self.us > us_of(o)

    def __ge__(self, o):
        return self.us >= us_of(o)

    __hash__ = object.__hash__

    def __repr__(self):
        return f"DT({self.us})"

    __str__ = __repr__

    def strftime(self, fmt):
        return f"<{self.us}>"

    def __deepcopy__(self, memo):
        return self

    def __reduce__(self):
        return (DT, (self.us,))


def us_of(x):
    """microseconds of a calendar value: since EPOCH for an instant, the length for a span (abstract or real)"""
    if isinstance(x, (TD, DT)):
        return x.us
    if isinstance(x, datetime.datetime):
        return (x - EPOCH) // _ONE_US
    if isinstance(x, datetime.timedelta):
        return x // _ONE_US
    raise TypeError(f"not a calendar value: {x!r}")


def span(us, symbolic):
    """a time span of `us` microseconds: abstract under the engine, the real class natively"""
    return TD(us) if symbolic else datetime.timedelta(microseconds=us)


def instant(us, symbolic):
    return DT(us) if symbolic else EPOCH + datetime.timedelta(microseconds=us)


class _TimedeltaMeta(type):
    """``timedelta`` as seen by the code under verification: builds the real class from real numbers, the
    abstract one as soon as an argument is symbolic; isinstance / annotations mean the real class"""

    def __call__(cls, days=0, seconds=0, microseconds=0, milliseconds=0, minutes=0, hours=0, weeks=0):
        args = (days, seconds, microseconds, milliseconds, minutes, hours, weeks)
        if all(_is_real_number(a) for a in args):
            return datetime.timedelta(days, seconds, microseconds, milliseconds, minutes, hours, weeks)
        if any(isinstance(a, float) for a in args):
            from .sym import Unsupported

            raise Unsupported("timedelta() with a symbolic and a fractional argument")
        us = microseconds + 1000 * milliseconds + US_SECOND * seconds + 60 * US_SECOND * minutes + 3600 * US_SECOND * hours + US_DAY * days + 7 * US_DAY * weeks
        return TD(us)

    def __instancecheck__(cls, obj):
        return isinstance(obj, datetime.timedelta)

    def __subclasscheck__(cls, sub):
        return issubclass(sub, datetime.timedelta)


class timedelta(metaclass=_TimedeltaMeta):
    _psvc_real = datetime.timedelta
    min = datetime.timedelta.min
    max = datetime.timedelta.max
    resolution = datetime.timedelta.resolution


def shim_module():
    """the ``datetime`` module handed to the code under verification"""
    m = types.ModuleType("datetime")
    m.__dict__.update({k: v for k, v in vars(datetime).items() if not k.startswith("__")})
    m.timedelta = timedelta
    return m
