"""psvc.timeabs -- calendar values abstracted to integers (microseconds): exact integer arithmetic, no overflow.

TD/DT are subclasses of timedelta/datetime (so isinstance checks and pydantic's assignment accept them) whose
value is the attribute ``us`` -- a python int natively, a symbolic int under the engine."""
import datetime


class TD(datetime.timedelta):
    __psvc_scalar__ = True

    def __new__(cls, us):
        o = datetime.timedelta.__new__(cls, 0)
        o.us = us
        return o

    def __mul__(self, k):
        return TD(k * self.us)

    __rmul__ = __mul__

    def __add__(self, o):
        if isinstance(o, DT):
            return DT(self.us + o.us)
        return TD(self.us + o.us)

    __radd__ = __add__

    def __repr__(self):
        return f"TD({self.us})"

    __str__ = __repr__

    def __deepcopy__(self, memo):
        return self

    def __reduce__(self):
        return (TD, (self.us,))


class DT(datetime.datetime):
    __psvc_scalar__ = True

    def __new__(cls, us):
        o = datetime.datetime.__new__(cls, 2000, 1, 1)
        o.us = us
        return o

    def __add__(self, o):
        return DT(self.us + o.us)

    __radd__ = __add__

    def __repr__(self):
        return f"DT({self.us})"

    __str__ = __repr__

    def strftime(self, fmt):
        return f"<{self.us}>"

    def __deepcopy__(self, memo):
        return self

    def __reduce__(self):
        return (DT, (self.us,))
