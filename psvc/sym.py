"""psvc.sym -- symbolic proxies and the path-exploration engine.

The real source of /repo/processscheduler is executed (see loader.py) with *symbolic parameters*:

  SymInt  : a Python ``int`` whose value is a z3 Int term over parameter constants
  SymReal : a Python ``float`` (treated as an exact real) whose value is a z3 Real term
  SymBool : a Python ``bool`` whose value is a z3 Bool term

They are subclasses of z3.ArithRef / z3.BoolRef, so every z3py constructor accepts them as they
are (object level), while the operators between two *meta-level* values (Sym*/int/bool) follow Python
semantics and stay meta level.  ``bool(SymBool)`` -- i.e. every ``if``/``and``/``or``/``not``/chained
comparison/comprehension filter of the real code -- asks the engine for a decision: the engine
forks by re-execution from a decision prefix and keeps the path condition.

Anything that would silently concretise a symbolic value (``range(n)``, indexing, ``float()`` ...)
raises Unsupported: such a path is reported as *undecided*, never as proved.
"""
import itertools
import z3


class Unsupported(Exception):
    """the real code used a symbolic value in a way the engine does not model"""


class PathAbort(BaseException):
    """internal: current path is infeasible or was cut (loop back edge)"""


class PathCut(PathAbort):
    """a loop-contract back edge: the path ends here by design"""


_ctx = z3.main_ctx()


def _short(term):
    """a short printable stand-in for a symbolic value (constants by name, compound terms by id)"""
    if z3.is_const(term):
        return f"<{term}>"
    return f"<sym#{term.get_id()}>"


def _is_meta(x):
    return isinstance(x, (SymInt, SymReal, SymBool, int, float, bool)) and not (
        isinstance(x, z3.ExprRef) and not isinstance(x, (SymInt, SymReal, SymBool))
    )


def _term(x):
    """z3 term of a meta-level value"""
    if isinstance(x, (SymInt, SymReal, SymBool)):
        return x.term
    if isinstance(x, bool):
        return z3.BoolVal(x)
    if isinstance(x, int):
        return z3.IntVal(x)
    if isinstance(x, float):
        if x == int(x):
            return z3.RealVal(int(x))
        return z3.RealVal(repr(x))
    raise Unsupported(f"no z3 term for {type(x)}")


def _is_real(x):
    return isinstance(x, (SymReal, float))


def _plain(e):
    """strip the proxy class: same AST as a plain z3 expression"""
    if isinstance(e, (SymInt, SymReal)):
        return e.term
    if isinstance(e, SymBool):
        return e.term
    return e


def py_floordiv(a, b):
    """Python's a // b on z3 Int terms (z3 div rounds towards -inf only for b > 0)"""
    return z3.If(b > 0, a / b, (-a) / (-b))


def py_mod(a, b):
    return a - b * py_floordiv(a, b)


def mk(term):
    """wrap a z3 term into the proxy of its sort (constants are folded back to Python values)"""
    term = z3.simplify(term) if z3.is_app(term) and term.num_args() > 0 and _all_numeral_args(term) else term
    if z3.is_int_value(term):
        return term.as_long()
    if z3.is_true(term):
        return True
    if z3.is_false(term):
        return False
    if z3.is_bool(term):
        return SymBool(term)
    if z3.is_int(term):
        return SymInt(term)
    if z3.is_real(term):
        if z3.is_rational_value(term):
            return term.numerator_as_long() / term.denominator_as_long()
        return SymReal(term)
    raise Unsupported(f"sort {term.sort()}")


def _all_numeral_args(t):
    return all(z3.is_int_value(a) or z3.is_rational_value(a) or z3.is_true(a) or z3.is_false(a) for a in t.children())


class _SymNum:
    """shared arithmetic of SymInt / SymReal"""

    def _arith(self, other, op, reflected=False):
        if not _is_meta(other):
            return NotImplemented
        a, b = (_term(other), self.term) if reflected else (self.term, _term(other))
        real = _is_real(self) or _is_real(other)
        if real:
            a = z3.ToReal(a) if z3.is_int(a) else a
            b = z3.ToReal(b) if z3.is_int(b) else b
        if op == "+":
            return mk(a + b)
        if op == "-":
            return mk(a - b)
        if op == "*":
            return mk(a * b)
        if op == "/":
            a = z3.ToReal(a) if z3.is_int(a) else a
            b = z3.ToReal(b) if z3.is_int(b) else b
            current().note_assumption("true division of symbolic numbers is exact (no float rounding)")
            return mk(a / b)
        if op == "//":
            if real:
                raise Unsupported("floor division on reals")
            return mk(py_floordiv(a, b))
        if op == "%":
            if real:
                raise Unsupported("modulo on reals")
            return mk(py_mod(a, b))
        if op == "**":
            if isinstance(other, int) and not reflected and 0 <= other <= 8:
                r = z3.IntVal(1) if not real else z3.RealVal(1)
                for _ in range(other):
                    r = r * a
                return mk(r)
            raise Unsupported("symbolic exponent")
        raise Unsupported(op)

    # --- object level (other is a plain z3 expression): behave exactly like z3py would with a numeral
    def _obj(self, other, name):
        return getattr(z3.ArithRef, name)(self.term, other)

    def __add__(self, o):
        r = self._arith(o, "+")
        return self._obj(o, "__add__") if r is NotImplemented else r

    def __radd__(self, o):
        r = self._arith(o, "+", True)
        return self._obj(o, "__radd__") if r is NotImplemented else r

    def __sub__(self, o):
        r = self._arith(o, "-")
        return self._obj(o, "__sub__") if r is NotImplemented else r

    def __rsub__(self, o):
        r = self._arith(o, "-", True)
        return self._obj(o, "__rsub__") if r is NotImplemented else r

    def __mul__(self, o):
        if hasattr(o, "__psvc_scalar__"):
            return NotImplemented  # let the other operand's reflected method run (symbolic timedelta)
        r = self._arith(o, "*")
        return self._obj(o, "__mul__") if r is NotImplemented else r

    def __rmul__(self, o):
        if hasattr(o, "__psvc_scalar__"):
            return NotImplemented
        r = self._arith(o, "*", True)
        return self._obj(o, "__rmul__") if r is NotImplemented else r

    def __truediv__(self, o):
        r = self._arith(o, "/")
        return self._obj(o, "__truediv__") if r is NotImplemented else r

    def __rtruediv__(self, o):
        r = self._arith(o, "/", True)
        return self._obj(o, "__rtruediv__") if r is NotImplemented else r

    def __div__(self, o):
        return self.__truediv__(o)

    def __floordiv__(self, o):
        r = self._arith(o, "//")
        if r is NotImplemented:
            raise Unsupported("// between symbolic int and z3 expression")
        return r

    def __rfloordiv__(self, o):
        r = self._arith(o, "//", True)
        if r is NotImplemented:
            raise Unsupported("// between symbolic int and z3 expression")
        return r

    def __mod__(self, o):
        r = self._arith(o, "%")
        return self._obj(o, "__mod__") if r is NotImplemented else r

    def __rmod__(self, o):
        r = self._arith(o, "%", True)
        return self._obj(o, "__rmod__") if r is NotImplemented else r

    def __pow__(self, o):
        r = self._arith(o, "**")
        return self._obj(o, "__pow__") if r is NotImplemented else r

    def __neg__(self):
        return mk(-self.term)

    def __pos__(self):
        return self

    def __abs__(self):
        return mk(z3.If(self.term >= 0, self.term, -self.term))

    def _cmp(self, o, op):
        if _is_meta(o):
            a, b = self.term, _term(o)
            if z3.is_real(a) != z3.is_real(b):
                a = z3.ToReal(a) if z3.is_int(a) else a
                b = z3.ToReal(b) if z3.is_int(b) else b
            t = {"<": a < b, "<=": a <= b, ">": a > b, ">=": a >= b, "==": a == b, "!=": a != b}[op]
            return mk(t)
        if o is None or isinstance(o, str):
            return {"==": False, "!=": True}.get(op, NotImplemented)
        if isinstance(o, z3.ExprRef):
            # natively an int never stays on the left of a z3 expression (int.__lt__ is NotImplemented,
            # so CPython calls the reflected method of the z3 operand): keep that orientation
            name = {"<": "__gt__", "<=": "__ge__", ">": "__lt__", ">=": "__le__", "==": "__eq__", "!=": "__ne__"}[op]
            return getattr(z3.ArithRef, name)(o, self.term)
        return {"==": False, "!=": True}.get(op, NotImplemented)

    def __lt__(self, o):
        return self._cmp(o, "<")

    def __le__(self, o):
        return self._cmp(o, "<=")

    def __gt__(self, o):
        return self._cmp(o, ">")

    def __ge__(self, o):
        return self._cmp(o, ">=")

    def __eq__(self, o):
        if isinstance(o, (SymInt, SymReal)) and o.term.eq(self.term):
            return True
        return self._cmp(o, "==")

    def __ne__(self, o):
        if isinstance(o, (SymInt, SymReal)) and o.term.eq(self.term):
            return False
        return self._cmp(o, "!=")

    def __hash__(self):
        return self.term.hash()

    def __bool__(self):
        return bool(self != 0)

    def __index__(self):
        raise Unsupported(f"symbolic integer {self.term} used as an index / range / repeat count")

    def __float__(self):
        raise Unsupported(f"float() of symbolic {self.term}")

    def __format__(self, spec):
        # only ever used to build *names* and messages; the text is irrelevant to the semantics
        return _short(self.term)

    def __str__(self):
        return _short(self.term)

    def __repr__(self):
        return f"{type(self).__name__}({_short(self.term)})"

    def __deepcopy__(self, memo):
        return self

    def __copy__(self):
        return self


class SymInt(_SymNum, z3.ArithRef):
    def __init__(self, term):
        z3.ArithRef.__init__(self, term.as_ast(), _ctx)
        self.term = z3.ArithRef(term.as_ast(), _ctx)

    def __int__(self):
        raise Unsupported(f"int() of symbolic {self.term} outside the engine's int()")


class SymReal(_SymNum, z3.ArithRef):
    def __init__(self, term):
        z3.ArithRef.__init__(self, term.as_ast(), _ctx)
        self.term = z3.ArithRef(term.as_ast(), _ctx)

    def __int__(self):
        raise Unsupported(f"int() of symbolic {self.term} outside the engine's int()")

    def __round__(self, n=None):
        raise Unsupported("round() of symbolic real")


class SymBool(z3.BoolRef):
    def __init__(self, term):
        z3.BoolRef.__init__(self, term.as_ast(), _ctx)
        self.term = z3.BoolRef(term.as_ast(), _ctx)

    def __bool__(self):
        return current().branch(self.term)

    def __eq__(self, o):
        if isinstance(o, (SymBool, bool)):
            return mk(self.term == _term(o))
        if isinstance(o, z3.ExprRef):
            return z3.BoolRef.__eq__(self.term, o)
        return False

    def __ne__(self, o):
        if isinstance(o, (SymBool, bool)):
            return mk(self.term != _term(o))
        if isinstance(o, z3.ExprRef):
            return z3.BoolRef.__ne__(self.term, o)
        return True

    def __hash__(self):
        return self.term.hash()

    def __format__(self, spec):
        return _short(self.term)

    def __str__(self):
        return _short(self.term)

    def __repr__(self):
        return f"SymBool({_short(self.term)})"

    def __index__(self):
        raise Unsupported("symbolic bool used as index")

    def __deepcopy__(self, memo):
        return self

    def __copy__(self):
        return self

    # int-like arithmetic on booleans (True + True) is not used by the library on meta-level values
    def __mul__(self, o):
        if isinstance(o, z3.ExprRef) and not isinstance(o, (SymInt, SymReal, SymBool)):
            return z3.BoolRef.__mul__(self.term, o)
        raise Unsupported("arithmetic on symbolic bool")

    def __rmul__(self, o):
        if isinstance(o, z3.ExprRef) and not isinstance(o, (SymInt, SymReal, SymBool)):
            return z3.BoolRef.__rmul__(self.term, o)
        raise Unsupported("arithmetic on symbolic bool")


def is_sym(x):
    return isinstance(x, (SymInt, SymReal, SymBool))


def contains_sym(x, depth=0):
    if is_sym(x):
        return True
    if depth > 6:
        return False
    if isinstance(x, (list, tuple, set, frozenset)):
        return any(contains_sym(e, depth + 1) for e in x)
    if isinstance(x, dict):
        return any(contains_sym(k, depth + 1) or contains_sym(v, depth + 1) for k, v in x.items())
    return False


# ------------------------------------------------------------------ engine-side builtins
def sym_int(x=0, *a):
    """the builtin int() as seen by the real code"""
    if isinstance(x, SymInt):
        return x
    if isinstance(x, SymBool):
        return mk(z3.If(x.term, 1, 0))
    if isinstance(x, SymReal):
        # int() truncates towards zero
        t = x.term
        current().note_assumption(
            "int(a / b) on symbolic numbers is computed on exact rationals (float rounding of the quotient ignored)"
        )
        return mk(z3.If(t >= 0, z3.ToInt(t), -z3.ToInt(-t)))
    return int(x, *a)


def sym_isinstance(obj, cls):
    if is_sym(obj):
        classes = cls if isinstance(cls, tuple) else (cls,)
        if isinstance(obj, SymBool):
            if bool in classes or int in classes:
                return True
        elif isinstance(obj, SymInt):
            if int in classes:
                return True
        elif isinstance(obj, SymReal):
            if float in classes:
                return True
        # symbolic python numbers are *not* z3 expressions from the point of view of the real code
        rest = tuple(c for c in classes if not (isinstance(c, type) and issubclass(c, z3.AstRef)))
        rest = tuple(c for c in rest if c not in (int, float, bool))
        return isinstance(obj, rest) if rest else False
    return isinstance(obj, cls)


class SymRange:
    """range() with a symbolic bound: may be handed to a ghost (e.g. axis ticks); iterating it unrolls the loop,
    one fork per iteration (it ends only where the path condition bounds the range; the decision budget of a
    path stops a runaway unrolling as Unsupported)"""

    def __init__(self, *args):
        self.args = args

    def bounds(self):
        a = self.args
        if len(a) == 1:
            return 0, a[0]
        if len(a) == 2 or (len(a) == 3 and not is_sym(a[2]) and a[2] == 1):
            return a[0], a[1]
        raise Unsupported(f"range() with a step and a symbolic bound {self.args}")

    def __iter__(self):
        lo, hi = self.bounds()
        if is_sym(lo):
            raise Unsupported(f"iteration over range() with symbolic start {self.args}")
        i = lo
        while bool(i < hi):
            yield i
            i += 1

    def __len__(self):
        raise Unsupported("len() of a symbolic range")


def sym_range(*args):
    for a in args:
        if is_sym(a):
            return SymRange(*args)
    return range(*args)


def sym_sum(it, start=0):
    r = start
    for x in it:
        r = r + x
    return r


def sym_max(*args, **kw):
    if len(args) == 1:
        args = list(args[0])
    if not any(is_sym(a) for a in args):
        return max(*args, **kw) if len(args) > 1 else max(args, **kw)
    r = args[0]
    for a in args[1:]:
        r = a if a > r else r
    return r


def sym_min(*args, **kw):
    if len(args) == 1:
        args = list(args[0])
    if not any(is_sym(a) for a in args):
        return min(*args, **kw) if len(args) > 1 else min(args, **kw)
    r = args[0]
    for a in args[1:]:
        r = a if a < r else r
    return r


def sym_abs(x):
    return abs(x)


def sym_bool(x=False):
    return True if bool(x) else False


# ------------------------------------------------------------------ exploration
class Path:
    """one execution: decision prefix, path condition, notes"""

    def __init__(self, engine, prefix):
        self.engine = engine
        self.prefix = list(prefix)
        self.pos = 0
        self.pc = []
        self.assumptions = set()
        self.events = []
        self.uid_counter = itertools.count(1)
        self.fresh_counter = itertools.count(1)
        self.stores = []  # (object, attribute) log for frame conditions
        self.side_clauses = []  # obligations generated during the run (loop contracts, ghost state)

    def note_assumption(self, text):
        self.assumptions.add(text)
        self.engine.assumptions.add(text)

    def add_clause(self, clause):
        """an obligation generated during the run; it is discharged under the path condition *as it is now*"""
        clause._pc_len = len(self.pc)
        self.side_clauses.append(clause)

    def assume(self, term):
        """restrict the path (a precondition). Infeasible -> abort the path"""
        term = _plain(term) if isinstance(term, z3.ExprRef) else z3.BoolVal(bool(term))
        self.pc.append(term)
        if not self.engine.feasible(self.pc):
            raise PathAbort("precondition infeasible")

    def branch(self, term):
        return self.choice(2, [term, z3.Not(term)]) == 0

    def choice(self, n, guards=None):
        """an n-way decision. guards[i] is the z3 condition of alternative i (None: free choice)"""
        if self.pos < len(self.prefix):
            d = self.prefix[self.pos]
        else:
            if guards is not None:
                feas = [self.engine.feasible(self.pc + [g]) for g in guards]
            else:
                feas = [True] * n
            alts = [i for i in range(n) if feas[i]]
            if not alts:
                raise PathAbort("no feasible alternative")
            d = alts[0]
            for other in alts[1:]:
                self.engine.pending.append(self.prefix[: self.pos] + [other])
            self.prefix.append(d)
        self.pos += 1
        if guards is not None:
            self.pc.append(guards[d])
        return d

    def fresh_name(self, base):
        return f"{base}!{next(self.fresh_counter)}"


class Engine:
    def __init__(self, timeout_ms=5000):
        self.pending = []
        self.assumptions = set()
        self._solver = z3.Solver()
        self._solver.set("timeout", timeout_ms)
        self.feas_cache = {}
        self.n_feas = 0

    def feasible(self, formulas):
        key = tuple(f.get_id() for f in formulas)
        r = self.feas_cache.get(key)
        if r is None:
            self.n_feas += 1
            self._solver.push()
            try:
                self._solver.add(*formulas)
                r = self._solver.check() != z3.unsat  # unknown counts as feasible (over-approximation)
            finally:
                self._solver.pop()
            self.feas_cache[key] = r
        return r

    def explore(self, fn, max_paths=4096):
        """run fn(path) on every feasible path. yields (path, outcome) where outcome is
        ('ok', value) | ('raise', exception) | ('unsupported', exception) | ('cut', info)"""
        global _current
        self.pending = [[]]
        results = []
        n = 0
        while self.pending:
            prefix = self.pending.pop()
            n += 1
            if n > max_paths:
                raise Unsupported(f"more than {max_paths} paths")
            path = Path(self, prefix)
            old = _current
            _current = path
            try:
                try:
                    value = fn(path)
                    outcome = ("ok", value)
                except PathCut as e:
                    outcome = ("cut", e)
                except PathAbort:
                    continue
                except Unsupported as e:
                    outcome = ("unsupported", e)
                except RecursionError as e:
                    outcome = ("unsupported", e)
                except Exception as e:  # an exception raised by the real code (or by real z3py / pydantic)
                    outcome = ("raise", e)
            finally:
                _current = old
            results.append((path, outcome))
        return results


class _NoPath:
    """outside exploration: symbolic booleans cannot be decided"""

    def branch(self, term):
        t = z3.simplify(term)
        if z3.is_true(t):
            return True
        if z3.is_false(t):
            return False
        raise Unsupported(f"bool() of symbolic {term} outside an exploration")

    def choice(self, n, guards=None):
        raise Unsupported("choice outside an exploration")

    def note_assumption(self, text):
        pass

    def add_clause(self, clause):
        pass

    stores = []
    events = []
    side_clauses = []

    def fresh_name(self, base):
        return f"{base}!np{next(_np_counter)}"

    uid_counter = itertools.count(10**6)


_np_counter = itertools.count(1)
_current = _NoPath()


def current():
    return _current
