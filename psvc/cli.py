"""psvc.cli -- ./check <property> [--tier quick|thorough] | ./check --replay <file>

exit 0: every obligation of the property discharged (known findings excepted and re-confirmed)
exit 1: an obligation is refuted and the refutation replayed on the real code -> VIOLATION line
exit 2: undecided (solver unknown, construct outside the engine's reach, contract target missing)
exit 3: checker fault (engine/CPython mismatch, back ends disagree, vacuous or missing obligations)
precedence 1 > 3 > 2 > 0.  unknown / timeouts / tracebacks are never mapped to a violation.
"""
import argparse
import fnmatch
import hashlib
import json
import multiprocessing as mp
import os
import sys
import time
import traceback

ROOT = os.path.dirname(os.path.dirname(os.path.abspath(__file__)))
sys.path.insert(0, ROOT)

from psvc import loader, runner, contract as C  # noqa: E402

TRUSTED_BASE = [
    "psvc engine: symbolic proxies + fork-by-re-execution over the real source (CPython itself executes every statement); exhaustive path forking, z3 'unknown' on a branch counts as feasible",
    "z3 4.12.6 (API) as primary back end; cvc5 1.0.3 / z3 5.1.0 / z3 4.8.12 on unknown and (thorough) cvc5 as cross-check",
    "z3py expression constructors are parametric in integer numerals (validated by the CPython differential on every path)",
    "pydantic enforces exactly the declared field constraints, copies defaults, does not validate assignment (the real pydantic validates every non-symbolic value); only BaseModel is replaced",
    "ghost solver contract: sat => the model satisfies every stacked formula; unsat => none does; unknown tells nothing; push/pop is a stack; an unsat core is a jointly unsatisfiable subset of the tracked names; Optimize returns an optimum of the registered objectives",
    "tracked assertions (debug mode): assert_and_track(f, p) is checked as f with p assumed -- a literal that is also an unknown of the model is thereby forced; what z3 shows of it (assertions(), to_smt2(), sexpr()) is `p => f`; an unsat core is unsatisfiable together with everything untracked",
    "SMT-LIB text is abstracted to the list of formulas it denotes (appended `(assert <Boolean symbol>)` commands are read); that z3's printer and parser are inverse is exercised natively on every export case",
    "PbEq/PbGe/PbLe(args, k) read as Sum(If(b, w, 0)) ==/>=/<= k when k is symbolic",
    "recording ghosts for xlsxwriter / matplotlib / pandas / files opened for writing: the libraries write and draw what they are told (the real ones are run natively on sampled inputs)",
    "Python ints and z3 Int are both mathematical integers; int(a/b) and true division computed on exact rationals; uuid values never repeat; hash() of z3 ASTs treated as injective",
    "calendar values: under the engine datetime.timedelta / datetime are integers of microseconds answering the classes' public API (psvc/timeabs.py); that the real classes implement exactly this arithmetic is assumed (natively the real classes are used)",
    "quantified queries the solvers leave open are split over the values of their Boolean unknowns (at most six) and decided case by case",
    "loop-independence rule (psvc/foreach.py): a syntactic sufficient condition, with the lifting of element-wise obligations to every collection length argued on paper, not discharged by a solver",
    "z3 behaves the same on alpha-equivalent constraint systems (C14) and is sound within the selected logic (C15)",
    "specifications (meaning functions) are a reading of the property statements and docs/*.md; checked against the repository's own tests by the runtime monitor (selftest/monitor_result.jsonl)",
]


def _job(args):
    cid, case, props, tier, seed = args
    try:
        return runner.run_case(cid, case, props, tier, seed)
    except Exception as e:  # noqa
        return {
            "contract": cid,
            "case": C.case_id(case),
            "target": C.REGISTRY[cid].target,
            "obligations": [],
            "paths": 0,
            "unsupported": [],
            "faults": [f"checker exception {type(e).__name__}: {e}\n{traceback.format_exc()[-2000:]}"],
            "diff_points": 0,
            "sentinels": [],
            "assumptions": [],
            "solver_time_s": 0.0,
        }


def load_known():
    fn = os.path.join(ROOT, "known_findings.json")
    if not os.path.exists(fn):
        return {"findings": [], "fixed": []}
    with open(fn) as f:
        return json.load(f)


def main(argv=None):
    ap = argparse.ArgumentParser()
    ap.add_argument("prop", nargs="?")
    ap.add_argument("--tier", default=os.environ.get("VERIF_TIER", "quick"))
    ap.add_argument("--replay")
    ap.add_argument("--jobs", type=int, default=int(os.environ.get("PSVC_JOBS", "16")))
    ap.add_argument("--only", help="glob on contract ids")
    ap.add_argument("--case", help="substring filter on case ids")
    ap.add_argument("--record-expected", action="store_true")
    ap.add_argument("-v", "--verbose", action="store_true")
    ap.add_argument("--no-evidence", action="store_true")
    a = ap.parse_args(argv)
    seed = int(os.environ.get("VERIF_SEED", "0") or 0)
    C.load_contracts()
    if a.replay:
        return do_replay(a.replay)
    prop = a.prop
    t0 = time.perf_counter()
    jobs = []
    for cid, con in C.REGISTRY.items():
        if prop not in con.props:
            continue
        if a.only and not fnmatch.fnmatch(cid, a.only):
            continue
        for case in con.cases(a.tier):
            if a.case and a.case not in C.case_id(case):
                continue
            jobs.append((cid, case, (prop,), a.tier, seed))
    if not jobs:
        print(f"psvc: no contract serves {prop}")
        return 3
    if a.jobs > 1 and len(jobs) > 1:
        reports = run_jobs(jobs, min(a.jobs, len(jobs)), JOB_LIMIT_S.get(a.tier, 900))
    else:
        reports = [_job(j) for j in jobs]
    return aggregate(prop, a, reports, jobs, seed, time.perf_counter() - t0)


# hard wall-clock limit of one job (one structural case of one contract, all its paths).  z3 honours its own
# timeout cooperatively only: some routines (non-linear arithmetic) do not poll it and a query can run for hours.
# A job that exceeds the limit is killed and its case reported as undecided (exit 2) -- never as a violation.
JOB_LIMIT_S = {"quick": int(os.environ.get("PSVC_JOB_LIMIT", "600")), "thorough": int(os.environ.get("PSVC_JOB_LIMIT", "1800"))}


def _worker_loop(conn):
    """long-lived worker: receives jobs, sends reports (module state -- loaded sources, the native library -- is kept
    from one job to the next)"""
    while True:
        try:
            job = conn.recv()
        except EOFError:
            return
        if job is None:
            return
        try:
            conn.send(_job(job))
        except BaseException as e:  # noqa
            try:
                conn.send({"__crash__": f"{type(e).__name__}: {e}"})
            except Exception:  # noqa
                return


def _empty_report(job, fault=None, undecided=None):
    cid, case, props, tier, seed = job
    return {"contract": cid, "case": C.case_id(case), "target": C.REGISTRY[cid].target, "obligations": [], "paths": 0,
            "unsupported": [undecided] if undecided else [], "faults": [fault] if fault else [], "diff_points": 0, "sentinels": [],
            "assumptions": [], "solver_time_s": 0.0, "wall_s": 0.0, "executed": []}


def run_jobs(jobs, nproc, limit_s):
    """a pool of nproc long-lived forked workers; every job runs under a hard wall-clock limit: a worker that
    exceeds it is killed (and replaced) and its job reported as undecided"""
    ctx = mp.get_context("fork")

    def spawn():
        parent, child = ctx.Pipe(duplex=True)
        p = ctx.Process(target=_worker_loop, args=(child,), daemon=True)
        p.start()
        child.close()
        return {"proc": p, "conn": parent, "job": None, "t0": None}

    workers = [spawn() for _ in range(nproc)]
    pending = list(enumerate(jobs))
    results = [None] * len(jobs)
    done = 0
    while done < len(jobs):
        progressed = False
        for i, w in enumerate(workers):
            if w["job"] is None:
                if pending:
                    idx, job = pending.pop(0)
                    try:
                        w["conn"].send(job)
                        w["job"], w["t0"] = (idx, job), time.perf_counter()
                        progressed = True
                    except (BrokenPipeError, OSError):
                        pending.insert(0, (idx, job))
                        workers[i] = spawn()
                continue
            idx, job = w["job"]
            got = None
            if w["conn"].poll():
                try:
                    got = w["conn"].recv()
                except (EOFError, OSError):
                    got = {"__crash__": "worker closed its pipe without a result"}
            elif not w["proc"].is_alive():
                got = {"__crash__": f"worker exited with code {w['proc'].exitcode} without a result"}
            elif time.perf_counter() - w["t0"] > limit_s:
                got = {"__timeout__": True}
            if got is None:
                continue
            progressed = True
            done += 1
            if "__crash__" in got or "__timeout__" in got:
                try:
                    w["proc"].kill()
                    w["proc"].join(timeout=5)
                    w["conn"].close()
                except Exception:  # noqa
                    pass
                workers[i] = spawn()
                if "__timeout__" in got:
                    results[idx] = dict(_empty_report(job, undecided=f"job killed after {limit_s} s: a solver call did not return (undecided, not a violation)"), killed=True)
                else:
                    results[idx] = _empty_report(job, fault=f"checker worker crashed: {got['__crash__']}")
            else:
                results[idx] = got
                w["job"], w["t0"] = None, None
        if not progressed:
            time.sleep(0.005)
    for w in workers:
        try:
            w["conn"].send(None)
            w["conn"].close()
        except Exception:  # noqa
            pass
    for w in workers:
        w["proc"].join(timeout=2)
        if w["proc"].is_alive():
            w["proc"].kill()
    return results


def confirm_natively(ob, case, params, schedule):
    """replay a refutation on the real code; ghost-level counterexamples fall back to the contract's bounded
    native search.  returns (confirmed, replay record)"""
    rp = runner.replay(ob["contract"], case, ob["clause"], params, ob.get("raised"), schedule)
    if rp["confirmed"]:
        return True, rp
    con = C.REGISTRY[ob["contract"]]
    if hasattr(con, "native_search"):
        try:
            rp2 = con.native_search(case, params, ob)
        except Exception as e:  # noqa
            rp2 = {"confirmed": False, "observation": {"native_search_error": f"{type(e).__name__}: {e}"}}
        if rp2["confirmed"]:
            return True, rp2
        rp = dict(rp, observation=dict(rp.get("observation") or {}, native_search=rp2["observation"]))
    return False, rp


def aggregate(prop, a, reports, jobs, seed, wall):
    known = load_known()
    kf = [k for k in known.get("findings", []) if k["property"] == prop]
    obligations = {}
    faults, unsupported = [], []
    n_paths = diff_points = 0
    solver_time = 0.0
    assumptions = set()
    sentinels = []
    for rep in reports:
        n_paths += rep["paths"]
        diff_points += rep["diff_points"]
        solver_time += rep["solver_time_s"]
        assumptions.update(rep["assumptions"])
        for f in rep["faults"]:
            faults.append(f"{rep['contract']}[{rep['case']}]: {f}")
        for u in rep["unsupported"]:
            unsupported.append(f"{rep['contract']}[{rep['case']}]: {u}")
        for s in rep["sentinels"]:
            sentinels.append((rep["contract"], rep["case"], s))
        for ob in rep["obligations"]:
            ob["contract"] = rep["contract"]
            ob["case"] = rep["case"]
            obligations.setdefault(ob["id"], []).append(ob)
    # --- status per obligation id (an id may occur on several paths)
    summary = {}
    for oid, obs in obligations.items():
        sts = {o["status"] for o in obs}
        if sts == {"not_lifted"} or (sts - {"discharged"}) == {"not_lifted"}:
            st = "not_lifted"
        elif "refuted" in sts:
            st = "refuted"
        elif "fault" in sts or "vacuous" in sts:
            st = "fault"
        elif "unknown" in sts:
            st = "unknown"
        else:
            st = "discharged"
        summary[oid] = st
    exp_file = os.path.join(ROOT, "contracts", "EXPECTED.json")
    expected = {}
    if os.path.exists(exp_file):
        with open(exp_file) as f:
            expected = json.load(f)
    expected_ids = set(expected.get(f"{prop}:{a.tier}", []))
    violations, known_hits, confirm_faults = [], [], []
    jobcases = {(cid, C.case_id(case)): case for cid, case, *_ in jobs}
    for oid, obs in sorted(obligations.items()):
        for ob in obs:
            if ob["status"] != "refuted":
                continue
            entry = next((k for k in kf if fnmatch.fnmatchcase(oid, k["obligation"])), None)
            case = jobcases[(ob["contract"], ob["case"])]
            if entry is not None:
                region = entry.get("region")
                if region is None:
                    ok_, rp = confirm_natively(ob, case, ob["params"], ob.get("schedule"))
                    if ok_:
                        known_hits.append((oid, entry, ob, rp))
                    else:
                        confirm_faults.append((oid, ob, rp))
                    continue
                rg = ob["regions"].get(region)
                if rg is None:
                    confirm_faults.append((oid, ob, {"observation": f"known finding names unknown region {region}"}))
                    continue
                if rg["fails_inside"] == "sat":
                    ok_, rp = confirm_natively(ob, case, rg["inside_params"], rg.get("inside_schedule"))
                    if ok_:
                        known_hits.append((oid, entry, ob, rp))
                    else:
                        confirm_faults.append((oid, ob, rp))
                if rg["fails_outside"] == "sat":
                    ob2 = dict(ob, params=rg["outside_params"], schedule=rg["outside_schedule"])
                    rp = runner.replay(ob["contract"], case, ob["clause"], ob2["params"], ob.get("raised"), ob2.get("schedule"))
                    if rp["confirmed"]:
                        violations.append((oid, ob2, rp))
                    else:
                        confirm_faults.append((oid, ob2, rp))
                elif rg["fails_outside"] != "unsat":
                    summary[oid] = "unknown"
                continue
            rp = runner.replay(ob["contract"], case, ob["clause"], ob["params"], ob.get("raised"), ob.get("schedule"))
            if rp["confirmed"]:
                violations.append((oid, ob, rp))
            else:
                # ghost-level obligations (solver histories, loop invariants): the counterexample is a sequence
                # of solver answers, not an API input.  Search a bounded family of native runs for a concrete
                # failing history; if none is found the violation is still reported, marked as such -- but only
                # for an obligation that is known to be generated and discharged on the unchanged tree.
                con = C.REGISTRY[ob["contract"]]
                rp2 = None
                # an exception seen under the engine only (not when the real code is run on the same input) is the
                # engine's: a gap of a stand-in, not a property of the library -- never confirmed by an unrelated search
                about_exception = ob["clause"].startswith(("reaches_postcondition[", "raises_only_if[", "raises_if["))
                if hasattr(con, "native_search") and not about_exception:
                    try:
                        rp2 = con.native_search(case, ob["params"], ob)
                    except Exception as e:  # noqa
                        rp2 = {"confirmed": False, "observation": {"native_search_error": f"{type(e).__name__}: {e}"}}
                if rp2 and rp2["confirmed"]:
                    violations.append((oid, ob, rp2))
                elif getattr(con, "diff", "formulas") == "eval" and oid in expected_ids:
                    obs = dict(rp.get("observation") or {})
                    if rp2:
                        obs["native_search"] = rp2["observation"]
                    violations.append((oid, dict(ob, no_failing_input=True), {"confirmed": False, "observation": obs}))
                else:
                    confirm_faults.append((oid, ob, rp))
    # --- sentinels: every contract must have refuted sentinels (some case where the deliberately wrong
    # clause fails); a contract whose sentinels are never refuted looks at nothing
    by_con = {}
    for cid, case, s in sentinels:
        by_con.setdefault(cid, []).append(s["refuted"])
    for cid, flags in by_con.items():
        if not any(flags):
            faults.append(f"{cid}: no sentinel was refuted in any case (vacuous check?)")
    vac_by_con = {}
    for oid, obs in obligations.items():
        for o in obs:
            if o["kind"] in ("sound", "equals"):
                vac_by_con.setdefault(o["contract"], []).append(bool(o.get("vacuous")))
    for cid, flags in vac_by_con.items():
        if flags and all(flags):
            faults.append(f"{cid}: every soundness obligation is vacuous (assertions unsatisfiable on every path)")
    # --- expected obligations
    key = f"{prop}:{a.tier}"
    if a.record_expected:
        expected[key] = sorted(obligations)
        with open(exp_file, "w") as f:
            json.dump(expected, f, indent=0, sort_keys=True)
    elif not a.only and not a.case:
        gone = {rep["helper_missing"] for rep in reports if rep.get("helper_missing")}
        for g in sorted(gone):
            print(f"NOTE: {prop}: helper {g} no longer exists under that name: its lemma contract is not applicable (the public-level contracts run whatever replaced it)")
        killed = [(rep["target"], rep["case"]) for rep in reports if rep.get("killed")]

        def waived(o):
            # obligations of a helper that is gone (NOTE above) or of a job that was killed (already reported as undecided)
            if any(o.startswith(f"{prop}/{g}/") for g in gone):
                return True
            return any(o.startswith(f"{prop}/{t}/") and (o.endswith(f"[{c}]") if c else True) for t, c in killed)

        missing = sorted(o for o in set(expected.get(key, [])) - set(obligations) if not waived(o))
        if key not in expected:
            faults.append(f"no expected-obligation list recorded for {key}")
        for mi in missing[:20]:
            faults.append(f"expected obligation not generated: {mi}")
    if not obligations:
        faults.append("zero obligations generated")
    for oid, ob, rp in confirm_faults:
        faults.append(f"refutation of {oid} did not replay on the real code: params={ob.get('params')} obs={rp.get('observation')}")

    # --- report
    os.makedirs(os.path.join(ROOT, "replays"), exist_ok=True)
    printed_known = set()
    for oid, entry, ob, rp in known_hits:
        tag = (entry["obligation"], entry.get("region"))
        if tag in printed_known:
            continue
        printed_known.add(tag)
        print(f"KNOWN-FINDING: property={prop} {entry['what']} [{oid}]")
    vio_files = []
    seen_v = set()
    for oid, ob, rp in violations:
        if oid in seen_v:
            continue
        seen_v.add(oid)
        digest = hashlib.sha256(json.dumps([oid, ob["params"]], sort_keys=True, default=str).encode()).hexdigest()[:10]
        safe = oid.replace("/", "_").replace("[", "_").replace("]", "").replace(",", "_").replace("=", "-").replace(" ", "")[:120]
        fn = os.path.join("replays", f"{safe}-{digest}.json")
        with open(os.path.join(ROOT, fn), "w") as f:
            json.dump(
                {
                    "property": prop,
                    "obligation": oid,
                    "contract": ob["contract"],
                    "case": jobcases[(ob["contract"], ob["case"])],
                    "clause": ob["clause"],
                    "function": f"processscheduler.{C.REGISTRY[ob['contract']].target}",
                    "params": ob["params"],
                    "schedule": ob.get("schedule"),
                    "raised": ob.get("raised"),
                    "note": ob.get("note"),
                    "trace": ob.get("trace"),
                    "verifier": {"backend": ob.get("backend"), "answer": "sat (negated obligation satisfiable)", "counterexample_parameters": ob.get("params"), "counterexample_unknowns": ob.get("schedule")},
                    "no_failing_input_found": bool(ob.get("no_failing_input")),
                    "native_observation": rp["observation"],
                },
                f,
                indent=1,
                default=str,
            )
        vio_files.append(fn)
        print(f"VIOLATION property={prop} replay={fn}" + (" no-failing-input-found" if ob.get("no_failing_input") else ""))
        if a.verbose:
            print("   ", oid, ob["params"], ob.get("note"))
    slow = sorted(((o.get("time_s") or 0, o["id"]) for obs in obligations.values() for o in obs), reverse=True)[:5]
    if a.verbose:
        for t, oid in slow:
            print(f"  slowest: {t:.2f}s {oid}")
    n_ob = len(summary)
    n_dis = sum(1 for s in summary.values() if s == "discharged")
    n_unknown = sum(1 for s in summary.values() if s == "unknown")
    not_lifted = sorted(oid for oid, s in summary.items() if s == "not_lifted")
    for oid in not_lifted:
        print(f"NOTE: {oid}: loop independence not established ({obligations[oid][0].get('note')}) -- the element-wise obligations through it are bounded stand-ins only")
    n_known = len({oid for oid, *_ in known_hits})
    if a.verbose or faults or unsupported:
        for f in faults[:30]:
            print("FAULT:", f[:2000])
        for u in unsupported[:30]:
            print("UNDECIDED:", u[:600])
        for oid, st in sorted(summary.items()):
            if st not in ("discharged",) and a.verbose:
                print(f"  {st:10s} {oid}")
    code = 0
    if n_unknown or unsupported:
        code = 2
    if faults:
        code = 3
    if violations:
        code = 1
    print(
        f"psvc {prop} [{a.tier}]: {n_ob} obligations, {n_dis} discharged, {n_known} known findings, "
        f"{len(seen_v)} violations, {n_unknown} unknown, {len(unsupported)} undecided paths, {len(faults)} faults; "
        f"{n_paths} paths, {diff_points} CPython differential points, solver {solver_time:.1f}s, wall {wall:.1f}s -> exit {code}"
    )
    if not a.no_evidence and not a.only and not a.case:
        write_evidence(prop, a, seed, summary, obligations, reports, known_hits, violations, faults, unsupported,
                       n_paths, diff_points, solver_time, wall, assumptions, sentinels)
    return code


def write_evidence(prop, a, seed, summary, obligations, reports, known_hits, violations, faults, unsupported,
                   n_paths, diff_points, solver_time, wall, assumptions, sentinels):
    L = loader.load()
    funcs, inlined = [], []
    seen = set()
    for rep in reports:
        con = C.REGISTRY[rep["contract"]]
        for q, dest in [(con.target, funcs)] + [(q, inlined) for q in con.inlines]:
            if q in seen:
                continue
            seen.add(q)
            try:
                dest.append(L.function_source(q))
            except KeyError:
                dest.append({"function": q, "missing": True})
    executed = sorted({x for rep in reports for x in rep.get("executed", [])})
    proved_ids = [o for o, s in summary.items() if not obligations[o][0].get("bounded")]
    bounded_ids = [o for o, s in summary.items() if obligations[o][0].get("bounded")]
    known_ids = {oid for oid, *_ in known_hits}
    backends = {}
    for obs in obligations.values():
        for o in obs:
            if o.get("backend"):
                backends[o["backend"]] = backends.get(o["backend"], 0) + 1
    samples = []
    for oid in sorted(summary)[:: max(1, len(summary) // 6)][:8]:
        o = obligations[oid][0]
        samples.append({"obligation": oid, "kind": o["kind"], "status": summary[oid], "backend": o.get("backend"), "time_s": o.get("time_s"), "bounded": o.get("bounded")})
    with_text = [o for obs in obligations.values() for o in obs if o.get("smt2_head")]
    for o in with_text[:: max(1, len(with_text) // 3)][:3]:
        samples.append({"obligation": o["id"], "kind": o["kind"], "status": summary[o["id"]], "negated_obligation_smt2": o["smt2_head"], "smt2_chars": o.get("smt2_chars")})
    n_proved = len(proved_ids)
    n_proved_dis = sum(1 for o in proved_ids if summary[o] == "discharged" or o in known_ids)
    level = "proof" if n_proved > 0 else "other"
    import glob as _glob, re as _re

    n_requires = 0
    for fn in _glob.glob(os.path.join(ROOT, "contracts", "*.py")):
        n_requires += len(_re.findall(r"P\.assume\(", open(fn).read()))
    cov = {
        "requires_scan": f"{n_requires} P.assume(..) preconditions in contracts/*.py (the documented parameter domains: positive durations, lo < hi, non-negative offsets ...); no other assume/admit/trusted construct exists in the framework; z3 'unknown' is never assumed",
        "obligations": max(n_proved, 0),
        "discharged": n_proved_dis,
        "checker_cmd": f"./check {prop} --tier {a.tier}",
        "trusted_base": TRUSTED_BASE,
        "explanation": "contract-based deductive verification: obligations generated from the real source on every run by symbolic execution of every path; 'obligations/discharged' count only unbounded obligations (symbolic integers, loop-free or schematic); bounded_obligations are stand-ins with a stated bound and are not counted as proved; an obligation excused by a committed known finding is counted as discharged only outside the excused region",
        "bounded_obligations": {"count": len(bounded_ids), "discharged": sum(1 for o in bounded_ids if summary[o] == "discharged" or o in known_ids), "bounds": sorted({str(obligations[o][0]["bounded"]) for o in bounded_ids}),
                                "lifted_to_every_length_by_loop_independence": 0 if any(st == "not_lifted" for st in summary.values()) else sum(1 for o in bounded_ids if obligations[o][0].get("lifts")),
                                "loop_independence_not_established": sorted(o for o, st in summary.items() if st == "not_lifted")},
        "known_findings": sorted({f"{e['obligation']} :: {e['what']}" for _, e, _, _ in known_hits}),
        "functions_under_contract": funcs,
        "functions_inlined": inlined,
        "functions_executed_symbolically": executed,
        "backends": backends,
        "solver_time_s": round(solver_time, 2),
        "paths_explored": n_paths,
        "slowest_obligations_s": [[round(t, 2), oid] for t, oid in sorted(((o.get("time_s") or 0, o["id"]) for obs in obligations.values() for o in obs), reverse=True)[:3]],
        "differential_points": diff_points,
        "sentinels_refuted": sum(1 for *_, s in sentinels if s["refuted"]),
        "undecided": unsupported[:20],
        "faults": faults[:20],
        "samples": samples,
        "evaluations": len(summary),
        "distinct_nontrivial": len(summary),
        "rule": "one evaluation = one obligation id (contract clause x structural case), discharged on every path of the real code that reaches it",
    }
    ev = {
        "property_id": prop,
        "tier": a.tier,
        "seed": seed,
        "level": level,
        "coverage": cov,
        "assumptions": sorted(assumptions) + TRUSTED_BASE,
        "wall_s": round(wall, 2),
        "violations": len({oid for oid, *_ in violations}),
    }
    os.makedirs(os.path.join(ROOT, "evidence"), exist_ok=True)
    with open(os.path.join(ROOT, "evidence", f"{prop}.json"), "w") as f:
        json.dump(ev, f, indent=1, default=str)


def do_replay(path):
    with open(os.path.join(ROOT, path) if not os.path.isabs(path) else path) as f:
        d = json.load(f)
    rp = runner.replay(d["contract"], d["case"], d["clause"], d["params"], d.get("raised"), d.get("schedule"))
    print(json.dumps(rp, indent=1, default=str))
    if rp["confirmed"]:
        print(f"VIOLATION property={d['property']} replay={path}")
        return 1
    return 0


if __name__ == "__main__":
    try:
        code = main()
    except SystemExit:
        raise
    except BaseException as e:  # a crash of the checker is a checker fault (3), never a violation
        traceback.print_exc()
        print(f"psvc: checker fault: {type(e).__name__}: {e} -> exit 3")
        code = 3
    sys.exit(code)
