"""psvc.foreach -- loop contracts for the collection loops: "iterations are independent".

Most loops of the library have the shape

    for x in COLLECTION:              (possibly nested: for y in g(x): ...)
        <compute formulas from x and loop-invariant context>
        <hand them to a collector: self.append_z3_assertion(..) / self.set_z3_assertions(..) / lst.append(..)>

For such a loop the canonical invariant is "collector = old collector ++ [item(j) | j < i], nothing else
changed", and it holds for every length as soon as one iteration cannot see what another one did.  This
module decides that *syntactically, on the AST of the real source, on every run* (a decidable loop-contract
obligation, not an SMT query).  A loop is **independent** iff

 R1  its body contains no break / return (`continue` only skips the rest of one iteration; raise ends everything);
 R2  every local name assigned in the body -- other than the loop target -- is body-local: in source order
     its first occurrence in the body is a plain store, so it is re-initialised in every iteration
     (exception R4);
 R3  the body writes to objects bound outside it only through collectors: the assertion sinks
     `self.append_z3_assertion / set_z3_assertions / append_z3_list_of_assertions`, the solution sinks
     `add_*_solution`, ghost canvases, or `name.append/extend(..)` on an outer list that the body never
     reads; attribute / subscript stores are allowed on the loop element or on body-local objects only;
 R4  an outer name that the body only ever assigns the constant True/False (a monotone flag such as
     `resource_assigned = True`) may be assigned and tested.

With an independent loop, an obligation proved for a *generic element* (what the bounded-shape scenarios do:
each element's integers are symbolic and its class ranges over the case split) holds for collections of
every length, provided its meaning is itself element-wise (a conjunction over elements or pairs, or a sum
of per-element terms).  Obligations whose argument needs more than that (sorting, pigeonhole: capacity,
contiguity, distances, idle time, buffers) are *not* lifted and stay bounded.
"""
import ast

SINKS = {
    "append_z3_assertion",
    "set_z3_assertions",
    "append_z3_list_of_assertions",
    "add_task_solution",
    "add_resource_solution",
    "add_buffer_solution",
    "add_indicator_solution",
    "add_busy_interval",  # writes the element's own dict, keyed by the current task
    "set_created_from_assertion",  # marks the element
}
MUTATORS = {"append", "extend", "insert", "add", "update", "pop", "remove", "setdefault", "clear", "sort", "reverse"}
GHOST_RECEIVERS = {"worksheet_resource", "worksheet_task", "worksheet_indicator", "gantt_chart", "buffer_chart", "plt", "workbook", "cell_task_format", "cell_task_name_format"}


def _names(node, ctx):
    return [n for n in ast.walk(node) if isinstance(n, ast.Name) and isinstance(n.ctx, ctx)]


def _occurrences(body):
    """(name, 'load'|'store') in evaluation order (approximation: value before targets, AugAssign target is a load)"""
    out = []

    def expr(e):
        if e is None:
            return
        if isinstance(e, (ast.ListComp, ast.SetComp, ast.GeneratorExp, ast.DictComp)):
            # comprehension variables are scoped: only the free names matter
            bound = set()
            for g in e.generators:
                expr_free(g.iter, bound)
                for t in ast.walk(g.target):
                    if isinstance(t, ast.Name):
                        bound.add(t.id)
                for c in g.ifs:
                    expr_free(c, bound)
            for part in ([e.elt] if hasattr(e, "elt") else [e.key, e.value]):
                expr_free(part, bound)
            return
        if isinstance(e, ast.Lambda):
            bound = {a.arg for a in e.args.args}
            expr_free(e.body, bound)
            return
        for n in ast.iter_child_nodes(e):
            if isinstance(n, ast.expr):
                expr(n)
        if isinstance(e, ast.Name) and isinstance(e.ctx, ast.Load):
            out.append((e.id, "load"))

    def expr_free(e, bound):
        for n in ast.walk(e):
            if isinstance(n, ast.Name) and isinstance(n.ctx, ast.Load) and n.id not in bound:
                out.append((n.id, "load"))

    def target(t):
        if isinstance(t, ast.Name):
            out.append((t.id, "store"))
        elif isinstance(t, (ast.Tuple, ast.List)):
            for x in t.elts:
                target(x)
        elif isinstance(t, ast.Starred):
            target(t.value)
        else:  # attribute / subscript: evaluates its base
            expr(t)

    def stmt(s):
        if isinstance(s, ast.Assign):
            expr(s.value)
            for t in s.targets:
                target(t)
        elif isinstance(s, ast.AugAssign):
            if isinstance(s.target, ast.Name):
                out.append((s.target.id, "load"))
            else:
                expr(s.target)
            expr(s.value)
            target(s.target)
        elif isinstance(s, ast.AnnAssign):
            expr(s.value)
            target(s.target)
        elif isinstance(s, ast.For):
            expr(s.iter)
            target(s.target)
            for b in s.body + s.orelse:
                stmt(b)
        elif isinstance(s, (ast.If, ast.While)):
            expr(s.test)
            for b in s.body + s.orelse:
                stmt(b)
        elif isinstance(s, ast.Expr):
            expr(s.value)
        elif isinstance(s, ast.Raise):
            expr(s.exc)
        elif isinstance(s, ast.FunctionDef):
            out.append((s.name, "store"))
        elif isinstance(s, ast.With):
            for i in s.items:
                expr(i.context_expr)
                if i.optional_vars is not None:
                    target(i.optional_vars)
            for b in s.body:
                stmt(b)
        elif isinstance(s, (ast.Pass, ast.Import, ast.ImportFrom)):
            pass
        else:
            for n in ast.iter_child_nodes(s):
                if isinstance(n, ast.expr):
                    expr(n)
                elif isinstance(n, ast.stmt):
                    stmt(n)

    for s in body:
        stmt(s)
    return out


def analyse_loop(loop):
    """returns (independent: bool, reasons: [str], relied_on: [str])"""
    reasons, relied = [], []
    body = loop.body
    # R1
    for s in body:
        for n in ast.walk(s):
            if isinstance(n, (ast.Break, ast.Return)):
                reasons.append(f"R1: {type(n).__name__.lower()} at line {n.lineno}")
    targets = {n.id for n in ast.walk(loop.target) if isinstance(n, ast.Name)} if isinstance(loop, ast.For) else set()
    occ = _occurrences(body)
    stored = {n for n, k in occ if k == "store"}
    first = {}
    for n, k in occ:
        first.setdefault(n, k)
    # constant-only flags (R4)
    flag_names = set()
    for s in body:
        for n in ast.walk(s):
            if isinstance(n, ast.Assign) and len(n.targets) == 1 and isinstance(n.targets[0], ast.Name):
                nm = n.targets[0].id
                if isinstance(n.value, ast.Constant) and isinstance(n.value.value, bool):
                    flag_names.add(nm)
    for s in body:
        for n in ast.walk(s):
            if isinstance(n, (ast.Assign, ast.AugAssign, ast.AnnAssign)):
                tg = n.targets if isinstance(n, ast.Assign) else [n.target]
                for t in tg:
                    for x in ast.walk(t):
                        if isinstance(x, ast.Name) and isinstance(x.ctx, ast.Store) and x.id in flag_names:
                            if not (isinstance(n, ast.Assign) and isinstance(n.value, ast.Constant) and isinstance(n.value.value, bool)):
                                flag_names.discard(x.id)
    local = set()
    for n in stored - targets:
        if first[n] == "store":
            local.add(n)
        elif n in flag_names:
            relied.append(f"R4: monotone flag {n}")
        else:
            reasons.append(f"R2: '{n}' is read before it is assigned in the body (carried from one iteration to the next)")
    for n in flag_names & stored:
        if n not in local and f"R4: monotone flag {n}" not in relied:
            relied.append(f"R4: monotone flag {n}")
    inner_targets = set()
    for s in body:
        for n in ast.walk(s):
            if isinstance(n, ast.For):
                inner_targets |= {x.id for x in ast.walk(n.target) if isinstance(x, ast.Name)}
    own = local | targets | inner_targets
    loads = [n for n, k in occ if k == "load"]
    # R3: stores through attributes / subscripts, mutator calls
    module = ast.Module(body=body, type_ignores=[])

    def key(e):
        return ast.unparse(e)

    def base_name(e):
        b = e
        while isinstance(b, (ast.Attribute, ast.Subscript, ast.Call)):
            b = b.value if not isinstance(b, ast.Call) else b.func
        return b.id if isinstance(b, ast.Name) else None

    def reads_of(k, exclude):
        """loads of the expression k in the body, other than the given nodes (receivers of mutator calls, store bases)"""
        cnt = 0
        for x in ast.walk(module):
            if isinstance(x, (ast.Name, ast.Attribute)) and isinstance(getattr(x, "ctx", None), ast.Load) and key(x) == k and id(x) not in exclude:
                cnt += 1
        return cnt

    collectors = {}
    for n in ast.walk(module):
        if isinstance(n, ast.Call) and isinstance(n.func, ast.Attribute) and n.func.attr in MUTATORS:
            collectors.setdefault(key(n.func.value), set()).add(id(n.func.value))
        if isinstance(n, ast.Subscript) and isinstance(n.ctx, ast.Store):
            collectors.setdefault(key(n.value), set()).add(id(n.value))
        if isinstance(n, ast.AugAssign) and isinstance(n.target, ast.Attribute):
            collectors.setdefault(key(n.target), set()).add(id(n.target))
    for n in ast.walk(module):
        if isinstance(n, ast.AugAssign) and isinstance(n.target, (ast.Attribute, ast.Subscript)):
            bn = base_name(n.target)
            if bn in own:
                continue
            k = key(n.target)
            if isinstance(n.op, ast.Add) and reads_of(k, collectors.get(k, set())) == 0:
                relied.append(f"R3: collector {k} += ..")
            else:
                reasons.append(f"R3: {k} is updated in place and read in the body (line {n.lineno})")
        elif isinstance(n, (ast.Attribute, ast.Subscript)) and isinstance(n.ctx, ast.Store):
            bn = base_name(n)
            if bn in own:
                continue
            if isinstance(n, ast.Subscript):
                k = key(n.value)
                idx_names = {x.id for x in ast.walk(n.slice) if isinstance(x, ast.Name)}
                if idx_names & own and reads_of(k, collectors.get(k, set())) == 0:
                    relied.append(f"R3: keyed collector {k}[<element>]")
                    continue
            parent_aug = any(isinstance(p, ast.AugAssign) and p.target is n for p in ast.walk(module))
            if not parent_aug:
                reasons.append(f"R3: store through {ast.unparse(n)} at line {n.lineno}")
        if isinstance(n, ast.Call) and isinstance(n.func, ast.Attribute):
            meth = n.func.attr
            recv = n.func.value
            bname = base_name(recv)
            if meth in SINKS:
                relied.append(f"R3: sink {ast.unparse(n.func)}")
                continue
            if bname in GHOST_RECEIVERS:
                relied.append(f"R3: ghost canvas {bname}.{meth}")
                continue
            if meth in MUTATORS and bname is not None and bname not in own:
                k = key(recv)
                if reads_of(k, collectors.get(k, set())) == 0:
                    relied.append(f"R3: collector {k}.{meth}")
                else:
                    reasons.append(f"R3: outer collection '{k}' is both extended and read in the body (line {n.lineno})")
    return (not reasons), reasons, sorted(set(relied))


def loops_of_function(tree, qual):
    """[(ordinal, loop node)] of the for-loops of 'Class.method' / 'function' in a module tree, in source order,
    nested loops included (each gets its own verdict)"""
    node = tree
    for p in qual.split("."):
        node = next(c for c in ast.iter_child_nodes(node) if isinstance(c, (ast.ClassDef, ast.FunctionDef)) and c.name == p)
    loops = [n for n in ast.walk(node) if isinstance(n, ast.For)]
    loops.sort(key=lambda n: (n.lineno, n.col_offset))
    return list(enumerate(loops))
