"""psvc.spec -- vocabulary of the specifications (DESIGN.md section 3).

Every function works on z3 terms and on python ints alike (through contract.T), so one text is the
oracle in the proof obligations and in the native replays.  Nothing here is derived from the code
under verification: the definitions come from the property statements and docs/*.md.
"""
import z3

from .contract import T, And, Or, Not, Implies, If


def zmax(a, b):
    a, b = T(a), T(b)
    return z3.If(a >= b, a, b)


def zmin(a, b):
    a, b = T(a), T(b)
    return z3.If(a <= b, a, b)


def overlap_len(s, e, lo, hi):
    """length of [s,e) /\\ [lo,hi)  (0 when they do not meet)"""
    return zmax(0, zmin(e, hi) - zmax(s, lo))


def disjoint(s1, e1, s2, e2):
    """the half-open intervals [s1,e1) and [s2,e2) do not overlap"""
    return Or(T(e1) <= T(s2), T(e2) <= T(s1))


def strictly_overlap(s1, e1, s2, e2):
    """two intervals of positive length share an instant"""
    return And(T(s1) < T(e2), T(s2) < T(e1))


def within(s, e, lo, hi):
    return And(T(lo) <= T(s), T(e) <= T(hi))


def cmp_kind(kind, a, b):
    """exact | min | max  :  a == b | a >= b | a <= b"""
    a, b = T(a), T(b)
    return {"exact": a == b, "min": a >= b, "max": a <= b}[kind]


def rel_kind(kind, a, b):
    """lax | strict | tight : a <= b | a < b | a == b"""
    a, b = T(a), T(b)
    return {"lax": a <= b, "strict": a < b, "tight": a == b}[kind]


def count(bools):
    return z3.Sum([z3.If(T(b), 1, 0) for b in bools]) if bools else z3.IntVal(0)


def sched(task):
    """the scheduled flag of a task as a z3 Bool (constant true for a mandatory task)"""
    s = task._scheduled
    return T(s)


def task_duration(task):
    """the documented duration of a task: the fixed value, zero, or the duration unknown"""
    cls = type(task).__name__
    if cls == "FixedDurationTask":
        return T(task.duration)
    if cls == "ZeroDurationTask":
        return z3.IntVal(0)
    return task._duration


def dur_ok(task):
    cls = type(task).__name__
    d = task_duration(task)
    if cls != "VariableDurationTask":
        return z3.BoolVal(True)
    cs = [d >= T(task.min_duration)]
    if task.max_duration is not None:
        cs.append(d <= T(task.max_duration))
    if task.allowed_durations is not None:
        cs.append(Or(*[d == T(a) for a in task.allowed_durations]))
    return And(*cs)


def task_timing(task, horizon_var, horizon_value=None, deadline=None):
    """C01: what holds of a *scheduled* task.  deadline: what the *declaration* says about the due date (True /
    False) when the scenario knows it -- a due date declared without the flag is a deadline (documented default);
    None: read the flag from the task object"""
    s, e = task._start, task._end
    cs = [s >= 0, e <= horizon_var, e - s == task_duration(task), dur_ok(task)]
    if horizon_value is not None:
        cs.append(horizon_var <= T(horizon_value))
    if task.release_date is not None:
        cs.append(s >= T(task.release_date))
    if task.due_date is not None and (_truth(task.due_date_is_deadline) if deadline is None else deadline):
        cs.append(e <= T(task.due_date))
    return And(*cs)


def _truth(b):
    if isinstance(b, bool):
        return b
    t = z3.simplify(T(b))
    if z3.is_true(t):
        return True
    if z3.is_false(t):
        return False
    raise ValueError("structural flag must be concrete in a case")


def _int_of(e):
    e = z3.simplify(e)
    if z3.is_int_value(e):
        return e.as_long()
    raise ValueError(f"not a numeral: {e}")


def past_point(task):
    """the (auxiliary) instant at which the library parks a task that is not scheduled: read from the
    task's own `If(scheduled, rules, start == c and end == c)` assertion; from the user's point of view the
    placement of an unscheduled task is existential, this is only the witness"""
    sch = task._scheduled
    for f in task.get_z3_assertions():
        if z3.is_app(f) and f.decl().kind() == z3.Z3_OP_ITE and f.arg(0).eq(T(sch)):
            parked = f.arg(2)
            for eq in parked.children():
                if z3.is_eq(eq) and eq.arg(0).eq(task._start):
                    return _int_of(eq.arg(1))
    raise ValueError(f"no parking point found for task {task.name}")


def unselected_point(task, worker):
    """the (auxiliary) instant at which the busy interval of a listed worker that is not selected is parked:
    read from the task's own `If(selected, sync, busy_start == c and busy_end == c)` assertion"""
    bs, be = worker._busy_intervals[task]
    for f in task.get_z3_assertions():
        if z3.is_app(f) and f.decl().kind() == z3.Z3_OP_ITE:
            parked = f.arg(2)
            for eq in parked.children():
                if z3.is_eq(eq) and eq.arg(0).eq(bs):
                    return _int_of(eq.arg(1))
    raise ValueError(f"no parking point found for worker {worker.name} / task {task.name}")
