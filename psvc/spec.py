"""psvc.spec -- vocabulary of the specifications (DESIGN.md section 3).

Every function works on z3 terms and on python ints alike (through contract.T), so one text is the
oracle in the proof obligations and in the native replays.  Nothing here is derived from the code
under verification: the definitions come from the property statements and docs/*.md.
"""
import z3

from .contract import T, And, Or, Not, Implies, If


def zmax(a, b):
    a, b = T(a), T(b)
    return z3.If(a >= b, a, b)


def zmin(a, b):
    a, b = T(a), T(b)
    return z3.If(a <= b, a, b)


def overlap_len(s, e, lo, hi):
    """length of [s,e) /\\ [lo,hi)  (0 when they do not meet)"""
    return zmax(0, zmin(e, hi) - zmax(s, lo))


def disjoint(s1, e1, s2, e2):
    """the half-open intervals [s1,e1) and [s2,e2) do not overlap"""
    return Or(T(e1) <= T(s2), T(e2) <= T(s1))


def strictly_overlap(s1, e1, s2, e2):
    """two intervals of positive length share an instant"""
    return And(T(s1) < T(e2), T(s2) < T(e1))


def within(s, e, lo, hi):
    return And(T(lo) <= T(s), T(e) <= T(hi))


def cmp_kind(kind, a, b):
    """exact | min | max  :  a == b | a >= b | a <= b"""
    a, b = T(a), T(b)
    return {"exact": a == b, "min": a >= b, "max": a <= b}[kind]


def rel_kind(kind, a, b):
    """lax | strict | tight : a <= b | a < b | a == b"""
    a, b = T(a), T(b)
    return {"lax": a <= b, "strict": a < b, "tight": a == b}[kind]


def count(bools):
    return z3.Sum([z3.If(T(b), 1, 0) for b in bools]) if bools else z3.IntVal(0)


def sched(task):
    """the scheduled flag of a task as a z3 Bool (constant true for a mandatory task)"""
    s = task._scheduled
    return T(s)


def task_duration(task):
    """the documented duration of a task: the fixed value, zero, or the duration unknown"""
    cls = type(task).__name__
    if cls == "FixedDurationTask":
        return T(task.duration)
    if cls == "ZeroDurationTask":
        return z3.IntVal(0)
    return task._duration


def dur_ok(task):
    cls = type(task).__name__
    d = task_duration(task)
    if cls != "VariableDurationTask":
        return z3.BoolVal(True)
    cs = [d >= T(task.min_duration)]
    if task.max_duration is not None:
        cs.append(d <= T(task.max_duration))
    if task.allowed_durations is not None:
        cs.append(Or(*[d == T(a) for a in task.allowed_durations]))
    return And(*cs)


def task_timing(task, horizon_var, horizon_value=None, deadline=None):
    """C01: what holds of a *scheduled* task.  deadline: what the *declaration* says about the due date (True /
    False) when the scenario knows it -- a due date declared without the flag is a deadline (documented default);
    None: read the flag from the task object"""
    s, e = task._start, task._end
    cs = [s >= 0, e <= horizon_var, e - s == task_duration(task), dur_ok(task)]
    if horizon_value is not None:
        cs.append(horizon_var <= T(horizon_value))
    if task.release_date is not None:
        cs.append(s >= T(task.release_date))
    if task.due_date is not None and (_truth(task.due_date_is_deadline) if deadline is None else deadline):
        cs.append(e <= T(task.due_date))
    return And(*cs)


def _truth(b):
    if isinstance(b, bool):
        return b
    t = z3.simplify(T(b))
    if z3.is_true(t):
        return True
    if z3.is_false(t):
        return False
    raise ValueError("structural flag must be concrete in a case")


def _int_of(e):
    e = z3.simplify(e)
    if z3.is_int_value(e):
        return e.as_long()
    raise ValueError(f"not a numeral: {e}")


_FORCED = {}


def _forced_value(assertions, when, var, what):
    """the value that `assertions` force on the integer unknown `var` whenever `when` holds: decided by the solver
    (a model of `assertions and when` gives the candidate c; `assertions and when and var != c` must be unsatisfiable),
    not read from the syntactic shape of the assertions -- an If(..) rewritten as two implications is the same rule"""
    # (cached with the formulas themselves: z3 recycles the ids of freed terms, an id alone is no key)
    key = (tuple(f.get_id() for f in assertions), when.get_id(), var.get_id())
    hit = _FORCED.get(key)
    if hit is not None and len(hit[1]) == len(assertions) and all(a.eq(b) for a, b in zip(hit[1], assertions)) and hit[2].eq(when) and hit[3].eq(var):
        return hit[0]
    s = z3.Solver()
    s.set("timeout", 20000)
    s.add(*assertions)
    s.add(when)
    if s.check() != z3.sat:
        raise ValueError(f"no parking point found for {what}: the case is not satisfiable")
    c = s.model().eval(var, model_completion=True)
    if not z3.is_int_value(c):
        raise ValueError(f"no parking point found for {what}")
    s.add(var != c)
    if s.check() != z3.unsat:
        raise ValueError(f"no parking point found for {what}: the value is not forced")
    _FORCED[key] = (c.as_long(), list(assertions), when, var)
    return c.as_long()


def past_point(task):
    """the (auxiliary) instant at which the library parks a task that is not scheduled: the value the task's own
    assertions force on its start when it is not scheduled.  From the user's point of view the placement of an
    unscheduled task is existential; this is only the witness"""
    return _forced_value(list(task.get_z3_assertions()), z3.Not(T(task._scheduled)), task._start, f"task {task.name}")


def parking(task):
    """past_point(task), or None when the task's assertions do not force one instant (another -- equally good --
    encoding of "not scheduled"): the callers then leave the placement of the unscheduled task to the solver"""
    try:
        return past_point(task)
    except ValueError:
        return None


def unscheduled_unknowns(task):
    return [x for x in (task._start, task._end, getattr(task, "_duration", None)) if isinstance(x, z3.ExprRef) and z3.is_const(x) and x.decl().kind() == z3.Z3_OP_UNINTERPRETED]


def unselected_point(task, worker):
    """the (auxiliary) instant at which the busy interval of a listed worker that is not selected is parked: the value
    the task's own assertions force on that interval's start when the worker holds nothing (the interval lies in the
    past)"""
    bs, be = worker._busy_intervals[task]
    when = bs < 0
    if getattr(task, "optional", False):
        # (a selected worker of a task that is not scheduled follows the task to *its* parking point: not that one)
        when = z3.And(when, bs != past_point(task))
    return _forced_value(list(task.get_z3_assertions()), when, bs, f"worker {worker.name} / task {task.name}")
