"""psvc.loader -- load the *real* source of /repo/processscheduler for symbolic execution.

On every run each ``processscheduler/*.py`` file of the working tree is read, optionally passed
through the mechanical loop-cut transformation (loopcut.py; only for functions that carry a loop
contract), compiled with its real file name and executed in a fresh module object whose
``__builtins__`` differ from CPython's in exactly these names:

  __import__  : ``processscheduler[.x]`` -> the modules loaded here; ``pydantic`` -> psvc.pydshim;
                ``z3`` -> the real z3 module with Solver/Optimize/SolverFor/set_option/PbEq/PbGe/PbLe
                replaced (ghost.py); ``uuid`` -> deterministic uuids; ``time``/``warnings``/``random``
                -> inert or havocking stand-ins; ``xlsxwriter``/``matplotlib``/``numpy``/``pandas`` ->
                recording ghosts; ``rich``/``plotly`` -> ImportError (the library's own fallback paths)
  isinstance, int, range, sum, max, min, print : symbolic-aware versions (sym.py)

Nothing else of the text is changed.
"""
import ast
import builtins
import hashlib
import os
import sys
import types

import z3

from . import sym, pydshim, ghost, timeabs

REPO = os.environ.get("PSVC_REPO", "/repo")
PKG = "processscheduler"


class _Z3Shim(types.ModuleType):
    """the real z3 module, with the solver objects replaced by ghosts"""

    def __init__(self):
        super().__init__("z3")
        # classes, so that isinstance(solver, z3.Optimize) in the real code works on the ghosts
        self.Solver = ghost.GhostPlainSolver
        self.SolverFor = ghost.make_solver_for
        self.Optimize = ghost.GhostOptimize
        self.set_option = ghost.set_option
        self.PbEq = ghost.PbEq
        self.PbGe = ghost.PbGe
        self.PbLe = ghost.PbLe
        self.FreshInt = ghost.FreshInt
        self.sat = z3.sat
        self.unsat = z3.unsat
        self.unknown = z3.unknown

    def __getattr__(self, name):
        return getattr(z3, name)


class Loaded:
    """the loaded package: .ps is the package module (public API), .modules the submodules"""

    def __init__(self, repo=None, loop_contracts=None, stubs=None):
        self.repo = repo or REPO
        self.pkgdir = os.path.join(self.repo, PKG)
        self.modules = {}
        self.sources = {}
        self.trees = {}
        self.loop_contracts = loop_contracts or {}
        self.stubs = stubs or {}
        self.z3shim = _Z3Shim()
        self.ghost_modules = ghost.ghost_modules()
        self.datetime_shim = timeabs.shim_module()
        self.builtins = dict(vars(builtins))
        self.builtins.update(
            {
                "__import__": self._import,
                "isinstance": sym.sym_isinstance,
                "int": _IntMeta("int", (), {"_psvc_int": True}),
                "range": sym.sym_range,
                "sum": sym.sym_sum,
                "max": sym.sym_max,
                "min": sym.sym_min,
                "print": lambda *a, **k: None,
                "open": ghost.ghost_open,
                "__psvc_loop_enter__": _loop_enter,
                "__psvc_loop_back__": _loop_back,
            }
        )
        self.ps = self._load(PKG)
        for name in sorted(os.listdir(self.pkgdir)):
            if name.endswith(".py") and name not in ("__init__.py", "__main__.py"):
                self._load(f"{PKG}.{name[:-3]}")

    # -------------------------------------------------------------- import machinery
    def _import(self, name, globals=None, locals=None, fromlist=(), level=0):
        if name == PKG or name.startswith(PKG + "."):
            mod = self._load(name)
            if fromlist:
                return mod
            return self._load(PKG)
        top = name.split(".")[0]
        if name == "pydantic":
            return pydshim
        if name == "z3":
            return self.z3shim
        if top in ("rich", "plotly"):
            raise ImportError(f"{name} is not available under psvc")
        if name == "datetime":
            return self.datetime_shim
        if name in self.ghost_modules:
            mod = self.ghost_modules[name]
            if fromlist:
                return mod
            return self.ghost_modules[top]
        return builtins.__import__(name, globals, locals, fromlist, level)

    def _path(self, modname):
        if modname == PKG:
            return os.path.join(self.pkgdir, "__init__.py")
        return os.path.join(self.pkgdir, modname.split(".", 1)[1] + ".py")

    def _load(self, modname):
        if modname in self.modules:
            return self.modules[modname]
        path = self._path(modname)
        with open(path, "r", encoding="utf-8") as f:
            src = f.read()
        self.sources[modname] = src
        tree = ast.parse(src, filename=path)
        self.trees[modname] = tree
        lcs = {k: v for k, v in self.loop_contracts.items() if k.partition("#")[0].rsplit(".", 2)[0] == modname}
        if lcs:
            from . import loopcut

            tree = loopcut.transform(tree, modname, lcs)
        mod = types.ModuleType(modname)
        mod.__file__ = path
        mod.__dict__["__builtins__"] = self.builtins
        if modname == PKG:
            mod.__path__ = [self.pkgdir]
            mod.__package__ = PKG
        else:
            mod.__package__ = PKG
        self.modules[modname] = mod
        code = compile(tree, path, "exec")
        exec(code, mod.__dict__)
        if modname != PKG and PKG in self.modules:
            setattr(self.modules[PKG], modname.split(".", 1)[1], mod)
        # call-by-contract stubs: replace a function by its contract stand-in *in every namespace that
        # imported it* is done lazily by apply_stubs() once everything is loaded
        return mod

    def apply_stubs(self, stubs):
        """replace functions by contract stand-ins (modular verification). stubs: {qualname: callable}.
        Returns an undo function."""
        undo = []
        for qual, repl in stubs.items():
            modname, _, attr = qual.rpartition(".")
            target = None
            if modname in self.modules:
                target = self.modules[modname].__dict__.get(attr)
            if target is None:  # Class.method
                m2, _, cname = modname.rpartition(".")
                cls = self.modules[m2].__dict__[cname]
                old = cls.__dict__[attr]
                setattr(cls, attr, repl)
                undo.append((cls, attr, old, True))
                continue
            for m in self.modules.values():
                for k, v in list(m.__dict__.items()):
                    if v is target:
                        m.__dict__[k] = repl
                        undo.append((m, k, v, False))

        def _undo():
            for obj, k, v, is_cls in undo:
                if is_cls:
                    setattr(obj, k, v)
                else:
                    obj.__dict__[k] = v

        return _undo

    # -------------------------------------------------------------- source facts for evidence
    def function_source(self, qualname):
        """(file, first line, last line, sha256) of a function/method given 'module.Class.method' or
        'module.function' relative to the package, e.g. 'task.Task.set_assertions'"""
        parts = qualname.split(".")
        modname = f"{PKG}.{parts[0]}"
        tree = self.trees[modname]
        node = tree
        for p in parts[1:]:
            found = None
            for child in ast.iter_child_nodes(node):
                if isinstance(child, (ast.ClassDef, ast.FunctionDef)) and child.name == p:
                    found = child
                    break
            if found is None:
                raise KeyError(qualname)
            node = found
        seg = ast.get_source_segment(self.sources[modname], node)
        return {
            "function": f"{PKG}.{qualname}",
            "file": os.path.relpath(self._path(modname), self.repo),
            "lines": [node.lineno, node.end_lineno],
            "sha256": hashlib.sha256(seg.encode()).hexdigest()[:16],
        }

    def reset_globals(self):
        self.modules[f"{PKG}.base"].active_problem = None


def _loop_enter(key, values, locs):
    from . import loopcut

    return loopcut.loop_enter(key, values, locs)


def _loop_back(key, values, locs):
    from . import loopcut

    return loopcut.loop_back(key, values, locs)


class _IntMeta(type):
    """``int`` as seen by the real code: callable like int(), isinstance-compatible, usable in annotations"""

    def __call__(cls, *a, **k):
        return sym.sym_int(*a, **k)

    def __instancecheck__(cls, obj):
        return sym.sym_isinstance(obj, int)

    def __subclasscheck__(cls, sub):
        return issubclass(sub, int)



_cache = {}


def load(repo=None, loop_contracts=None, fresh=False):
    key = (repo or REPO, tuple(sorted((loop_contracts or {}).keys())))
    if fresh or key not in _cache:
        _cache[key] = Loaded(repo, loop_contracts)
    return _cache[key]
