"""psvc.ghost -- ghost state standing in for the dependencies of the real code.

Ghost solver (assumed contract of z3.Solver / z3.Optimize, listed in every evidence file):
  * add / assert_and_track append formulas to the top frame; push/pop are a stack
  * check() answers sat | unsat | unknown (the exploration forks three ways)
      sat     : model() returns a model m with every stacked formula true in m
      unsat   : no assignment satisfies the stacked formulas
      unknown : tells nothing
  * Optimize.check()=sat additionally: m is optimal for the registered objective(s)
  * unsat_core(): a subset of the tracked names whose formulas are jointly unsatisfiable
A model is represented by *renaming*: the value of the unknown ``x`` in model k is the z3 constant
``m{k}!x``; "formula F holds in m" is F with every unknown renamed.
"""
import hashlib
import itertools
import types

import z3

from . import sym
from .sym import SymInt, SymBool, SymReal, current, mk, _plain


# ------------------------------------------------------------------------------ helpers
def bool_names_in(formulas):
    """names of the uninterpreted Boolean constants occurring in the formulas"""
    out, seen, todo = set(), set(), list(formulas)
    while todo:
        e = todo.pop()
        if e.get_id() in seen:
            continue
        seen.add(e.get_id())
        if z3.is_quantifier(e):
            todo.append(e.body())
            continue
        if z3.is_const(e) and z3.is_bool(e) and e.decl().kind() == z3.Z3_OP_UNINTERPRETED:
            out.add(e.decl().name())
        todo.extend(e.children())
    return out


def flatten_assertions(args):
    out = []
    for a in args:
        if isinstance(a, (list, tuple)):
            out.extend(flatten_assertions(a))
        elif isinstance(a, z3.AstVector):
            out.extend(list(a))
        elif isinstance(a, bool):
            out.append(z3.BoolVal(a))
        elif isinstance(a, z3.BoolRef):
            out.append(_plain(a))
        else:
            # z3py: s.add(x) with a non-Boolean raises Z3Exception
            raise z3.Z3Exception(f"True, False or Z3 Boolean expression expected. Received {a!r} of type {type(a)}")
    return out


def consts_of(formulas):
    """free uninterpreted constants (and 0-ary applications) occurring in the formulas"""
    seen = {}
    visited = set()
    stack = list(formulas)
    while stack:
        e = stack.pop()
        i = e.get_id()
        if i in visited:
            continue
        visited.add(i)
        if z3.is_quantifier(e):
            stack.append(e.body())
            continue
        if z3.is_app(e):
            if e.num_args() == 0 and e.decl().kind() == z3.Z3_OP_UNINTERPRETED:
                seen[e.decl().name()] = e
            stack.extend(e.children())
    return seen


def funcs_of(formulas):
    seen = {}
    visited = set()
    stack = list(formulas)
    while stack:
        e = stack.pop()
        i = e.get_id()
        if i in visited:
            continue
        visited.add(i)
        if z3.is_quantifier(e):
            stack.append(e.body())
            continue
        if z3.is_app(e):
            if e.num_args() > 0 and e.decl().kind() == z3.Z3_OP_UNINTERPRETED:
                seen[e.decl().name()] = e.decl()
            stack.extend(e.children())
    return seen


PARAM_PREFIX = "P_"


def is_param_const(name):
    return name.startswith(PARAM_PREFIX) or name.startswith("m") and "!" in name and name.split("!")[0][1:].isdigit() or name.startswith("T!")


class GhostModel:
    def __init__(self, solver, k, formulas):
        self.solver = solver
        self.k = k
        self.formulas = formulas
        self.known = consts_of(formulas)
        self.facts = []
        self.optimal_for = None

    def rename(self, e):
        """e with every (non-parameter) unknown renamed into this model"""
        cs = consts_of([e])
        subs = []
        for name, c in cs.items():
            if is_param_const(name):
                continue
            subs.append((c, z3.Const(f"m{self.k}!{name}", c.sort())))
        fs = funcs_of([e])
        r = z3.substitute(e, *subs) if subs else e
        if fs:
            r = z3.substitute_funs(r, *[(d, _lambda_of(self.k, d)) for d in fs.values()]) if hasattr(z3, "substitute_funs") else r
        return r

    def value(self, x):
        return self.rename(_plain(x))

    def __getitem__(self, x):
        if isinstance(x, bool) or isinstance(x, int) and not isinstance(x, z3.ExprRef):
            # z3py: an integer index returns the idx-th declaration of the model
            return GhostDecl(self, x)
        if isinstance(x, SymBool) or isinstance(x, SymInt):
            raise sym.Unsupported("model[...] of a symbolic python value")
        if isinstance(x, z3.ExprRef):
            if z3.is_const(x) and x.decl().kind() == z3.Z3_OP_UNINTERPRETED:
                if x.decl().name() not in self.known:
                    # z3 returns None for an unknown that occurs in no assertion (no model completion)
                    return None
                return GhostVal(self, self.value(x))
            raise sym.Unsupported(f"model[{x}] for a non-constant")
        raise z3.Z3Exception("Integer, Z3 declaration, or Z3 constant expected")

    def eval(self, x, model_completion=False):
        return GhostVal(self, self.value(x))

    def decls(self):
        return []

    def __len__(self):
        return len(self.known)

    def __bool__(self):
        return True


def _lambda_of(k, d):
    args = [z3.Var(i, d.domain(i)) for i in range(d.arity())]
    newf = z3.Function(f"m{k}!{d.name()}", *[d.domain(i) for i in range(d.arity())], d.range())
    return newf(*args)


class GhostDecl:
    def __init__(self, model, idx):
        self.idx = idx

    def __format__(self, spec):
        return f"<decl #{int(self.idx)}>"

    __str__ = lambda self: f"<decl #{int(self.idx)}>"


class SymBoolStr(str):
    """the text z3 prints for a Boolean model value: "True" or "False" depending on the model"""

    def __new__(cls, term):
        s = super().__new__(cls, f"<str({term})>")
        s.term = term
        return s

    def __eq__(self, other):
        if isinstance(other, SymBoolStr):
            return mk(self.term == other.term)
        if other == "True":
            return mk(self.term)
        if other == "False":
            return mk(z3.Not(self.term))
        return False

    def __ne__(self, other):
        r = self.__eq__(other)
        return mk(z3.Not(sym._term(r)))

    __hash__ = str.__hash__


class GhostVal:
    """a value read from a ghost model"""

    def __init__(self, model, term):
        self.model = model
        self.term = term

    def as_long(self):
        if z3.is_int(self.term):
            return mk(self.term)
        raise AttributeError("as_long")  # z3: BoolRef has no as_long

    def as_fraction(self):
        raise sym.Unsupported("as_fraction")

    def __format__(self, spec):
        if z3.is_bool(self.term):
            return SymBoolStr(self.term)
        return format(mk(self.term), spec)

    def __str__(self):
        if z3.is_bool(self.term):
            return SymBoolStr(self.term)
        return str(mk(self.term))

    def __eq__(self, other):
        raise sym.Unsupported("comparison of a z3 model value")

    __hash__ = object.__hash__


class CoreItem:
    def __init__(self, name):
        self.name = name

    def __format__(self, spec):
        return self.name

    def __str__(self):
        return self.name


class GhostSolver:
    kind = "Solver"

    def __init__(self, logic=None):
        self.logic = logic
        self.frames = [[]]  # each entry: (formula, track_name | None)
        self.objectives = []
        self.params = {}
        self.models = []
        self.last = None
        self.history = []  # ('add', f) / ('push',) / ('pop',) / ('check', result)
        self.unsat_facts = []  # list of formula-lists known to be unsatisfiable
        self.n_push = 0
        self.n_pop = 0
        # loop-contract abstraction: frames[:base_len] are the frames at loop entry; the frames above
        # summarise `scope_offset + (len(frames) - base_len)` pushed scopes
        self.base_len = None
        self.scope_offset = 0
        current().events.append(("solver", self))

    # -- stack
    def add(self, *args):
        for f in flatten_assertions(args):
            self.frames[-1].append((f, None))
            self.history.append(("add", f))

    append = add
    insert = add
    assert_exprs = add

    def assert_and_track(self, a, p):
        if isinstance(p, str):
            name = p
        elif isinstance(p, z3.BoolRef):
            name = str(p)
        else:
            raise z3.Z3Exception("track name")
        (f,) = flatten_assertions([a])
        self.frames[-1].append((f, name))
        self.history.append(("track", f, name))

    def push(self):
        self.frames.append([])
        self.n_push += 1
        self.history.append(("push",))

    def pushed_count(self):
        """number of scopes pushed since loop entry (python int or symbolic)"""
        if self.base_len is None:
            return len(self.frames) - 1
        return self.scope_offset + (len(self.frames) - self.base_len)

    def pop(self, num=1):
        if isinstance(num, SymInt) or sym.is_sym(self.scope_offset):
            p = current()
            want = sym._term(self.pushed_count())
            nt = sym._term(num)
            if not p.engine.feasible(p.pc + [nt != want]):
                # everything pushed since loop entry is popped
                del self.frames[self.base_len :]
                self.scope_offset = 0
                self.n_pop += 1
                self.history.append(("pop-all",))
                return
            if p.engine.feasible(p.pc + [nt > want]):
                raise z3.Z3Exception("index out of bounds")  # popping more scopes than were pushed
            # fewer scopes popped than pushed: of what stays on the stack nothing is known but that it is some
            # constraint on the same unknowns -- an arbitrary predicate over the constants of the summary
            rest = mk(want - nt)
            cs = list(consts_of([f for fr in self.frames[self.base_len :] for f, _ in fr]).values())
            cs = [c for c in cs if not is_param_const(c.decl().name())]
            R = z3.Function(p.fresh_name("Remaining"), *[c.sort() for c in cs], z3.BoolSort()) if cs else None
            opaque = R(*cs) if R is not None else z3.Bool(p.fresh_name("Remaining"))
            del self.frames[self.base_len :]
            self.frames.append([(opaque, None)])
            self.scope_offset = rest - 1
            self.n_pop += 1
            self.history.append(("pop-some",))
            return
        for _ in range(num):
            if len(self.frames) <= 1:
                raise z3.Z3Exception("index out of bounds")
            self.frames.pop()
            self.n_pop += 1
            self.history.append(("pop",))

    def num_scopes(self):
        if self.base_len is None:
            return len(self.frames) - 1
        return (self.base_len - 1) + self.pushed_count()

    def raw_stack(self):
        return [f for fr in self.frames for f, _ in fr]

    def stack(self):
        fs = [f for fr in self.frames for f, _ in fr]
        names = [n for fr in self.frames for _, n in fr if n is not None]
        if not names:
            return fs
        # assert_and_track(f, p) is `p => f` checked under the assumption p.  For a fresh literal p that is just f; a
        # literal that is *also an unknown of the model* (same name as a Boolean inside the formulas) is forced to true
        key = (len(fs), tuple(f.get_id() for f in fs[-3:]), len(names))
        if getattr(self, "_clash_key", None) != key:
            inside = bool_names_in(fs)
            self._clash = [z3.Bool(n) for n in dict.fromkeys(names) if n in inside]
            self._clash_key = key
        return fs + self._clash

    def tracked(self):
        return [(f, n) for fr in self.frames for f, n in fr if n is not None]

    def shown(self):
        """what z3 shows of the assertions (assertions(), to_smt2(), sexpr()): a tracked assertion appears as
        `literal => assertion`; that the literals are assumed by every check is not part of it"""
        return [z3.Implies(z3.Bool(n), f) if n is not None else f for fr in self.frames for f, n in fr]

    def assertions(self):
        return self.shown()

    def set(self, *a, **kw):
        self.params.update(kw)
        if a:
            self.params.update(dict(zip(a[::2], a[1::2])))

    # -- check
    def check(self, *assumptions):
        if assumptions:
            raise sym.Unsupported("check with assumptions")
        p = current()
        stack = self.stack()
        d = p.choice(3)
        if d == 0:
            k = next(_model_counter)
            m = GhostModel(self, k, list(stack))
            for f in stack:
                p.pc.append(m.rename(f))
            if not p.engine.feasible(p.pc):
                raise sym.PathAbort("sat answer impossible: stack unsatisfiable under the path condition")
            if self.kind == "Optimize":
                m.optimal_for = (list(self.objectives), dict(self.params), list(stack))
            self.models.append(m)
            self.last = z3.sat
            self._model = m
        elif d == 1:
            self.unsat_facts.append(list(stack))
            self.last = z3.unsat
            self._model = None
        else:
            self.last = z3.unknown
            self._model = None
        self.history.append(("check", self.last, len(self.models)))
        return self.last

    def model(self):
        if self.last != z3.sat:
            raise z3.Z3Exception("model is not available")
        return self._model

    def reason_unknown(self):
        return "unknown"

    def unsat_core(self):
        """a subset of the tracked names.  The exploration forks over the family: every singleton, every
        pair, and the whole tracked set (the real code treats the elements of a core one by one, so larger
        subsets add no new behaviour; the family is a stated bound, not an exhaustive enumeration)"""
        if self.last != z3.unsat:
            raise z3.Z3Exception("core is not available")
        import itertools as _it

        p = current()
        names = [n for _, n in self.tracked()]
        family = [(n,) for n in names] + list(_it.combinations(names, 2)) + [tuple(names)]
        pick = family[p.choice(len(family))] if family else ()
        core = [CoreItem(n) for n in pick]
        self.core = core
        return core

    def statistics(self):
        return []

    def param_descrs(self):
        raise sym.Unsupported("param_descrs")

    def to_smt2(self):
        if self.kind == "Optimize":
            # z3.Optimize has no to_smt2 method
            raise AttributeError("'Optimize' object has no attribute 'to_smt2'")
        return SmtText(self.shown())

    def sexpr(self):
        return SmtText(self.shown())

    def __getattr__(self, name):
        if name.startswith("__"):
            raise AttributeError(name)
        raise AttributeError(f"'{self.kind}' ghost has no attribute '{name}'")


class SmtText(str):
    """the SMT-LIB text of a stack of assertions (content abstracted to the formula list)"""

    def __new__(cls, formulas):
        s = super().__new__(cls, "<smt2 text>")
        s.formulas = list(formulas)
        return s

    # the little text surgery an exporter may do on it: cut at the final (check-sat), append commands
    def rpartition(self, sep):
        if sep != "(check-sat)":
            raise sym.Unsupported(f"SMT-LIB text: rpartition({sep!r})")
        return SmtText(self.formulas), sep, "\n"

    def __add__(self, other):
        if isinstance(other, SmtText):
            return SmtText(self.formulas + other.formulas)
        if not isinstance(other, str):
            return NotImplemented
        extra = []
        for line in other.splitlines():
            line = line.strip()
            if not line or line == "(check-sat)":
                continue
            if line.startswith("(assert ") and line.endswith(")"):
                body = line[len("(assert ") : -1].strip()
                name = body[1:-1] if body.startswith("|") and body.endswith("|") else body
                if body and "(" not in body and " " not in name.strip("|"):
                    extra.append(z3.Bool(name))  # (assert <Boolean symbol>)
                    continue
                if body.startswith("|") and body.endswith("|") and body.count("|") == 2:
                    extra.append(z3.Bool(name))
                    continue
            raise sym.Unsupported(f"SMT-LIB text: appended command not understood: {line[:60]!r}")
        return SmtText(self.formulas + extra)


class GhostPlainSolver(GhostSolver):
    """z3.Solver(): distinct from GhostOptimize for isinstance tests"""

    def __init__(self, *a, **k):
        GhostSolver.__init__(self)


class GhostOptimize(GhostSolver):
    kind = "Optimize"

    def __init__(self, *a, **k):
        GhostSolver.__init__(self)

    def minimize(self, v):
        self.objectives.append(("min", _plain(v)))
        self.history.append(("minimize", _plain(v)))
        return None

    def maximize(self, v):
        self.objectives.append(("max", _plain(v)))
        self.history.append(("maximize", _plain(v)))
        return None


_model_counter = itertools.count(1)


def make_solver(*a, **k):
    return GhostSolver()


def make_solver_for(logic, *a, **k):
    s = GhostPlainSolver()
    s.logic = logic
    return s


def make_optimize(*a, **k):
    return GhostOptimize()


def set_option(*args, **kws):
    d = dict(kws)
    for i in range(0, len(args), 2):
        d[args[i]] = args[i + 1]
    current().events.append(("set_option", d))


def FreshInt(prefix="x", ctx=None):
    return z3.FreshInt(prefix)


# ---- pseudo-Boolean constraints: arithmetic reading, needed because z3py wants a concrete k
def _pb(args, k, op):
    if not sym.is_sym(k) and not any(sym.is_sym(w) for _, w in args):
        return {"eq": z3.PbEq, "ge": z3.PbGe, "le": z3.PbLe}[op]([(_plain(b) if isinstance(b, z3.ExprRef) else b, w) for b, w in args], k)
    current().note_assumption("PbEq/PbGe/PbLe(args, k) read as Sum(If(b, w, 0)) ==/>=/<= k for symbolic k")
    terms = []
    for b, w in args:
        if isinstance(b, bool):
            b = z3.BoolVal(b)
        terms.append(z3.If(_plain(b), sym._term(int(w)) if not sym.is_sym(w) else w.term, 0))
    s = z3.Sum(terms) if terms else z3.IntVal(0)
    kt = sym._term(k)
    return {"eq": s == kt, "ge": s >= kt, "le": s <= kt}[op]


def PbEq(args, k, ctx=None):
    return _pb(args, k, "eq")


def PbGe(args, k):
    return _pb(args, k, "ge")


def PbLe(args, k):
    return _pb(args, k, "le")


# ------------------------------------------------------------------------------ other modules
class _UUID:
    def __init__(self, n):
        h = hashlib.sha256(f"psvc-uuid-{n}".encode()).hexdigest()
        self.hex = h[:32]
        self.int = int(self.hex, 16)

    def __str__(self):
        h = self.hex
        return f"{h[:8]}-{h[8:12]}-{h[12:16]}-{h[16:20]}-{h[20:]}"


def _uuid4():
    return _UUID(next(current().uid_counter))


class Recorder:
    """records every call made on it (ghost canvas / workbook / axes)"""

    def __init__(self, name, log=None):
        object.__setattr__(self, "_name", name)
        object.__setattr__(self, "_log", log if log is not None else [])

    def __getattr__(self, attr):
        if attr.startswith("__"):
            raise AttributeError(attr)

        def call(*a, **k):
            self._log.append((self._name, attr, a, k))
            return Recorder(f"{self._name}.{attr}()", self._log)

        return call

    def __call__(self, *a, **k):
        self._log.append((self._name, "__call__", a, k))
        return Recorder(f"{self._name}()", self._log)

    def __iter__(self):
        raise TypeError("ghost object is not iterable")

    def __getitem__(self, i):
        return Recorder(f"{self._name}[{i}]", self._log)


class GhostFormat:
    """a cell format; xlsxwriter's documented precondition on colours (#RRGGBB or a colour name) is an
    obligation of the caller"""

    NAMES = {"black", "blue", "brown", "cyan", "gray", "green", "lime", "magenta", "navy", "orange", "pink", "purple", "red", "silver", "white", "yellow", "automatic"}

    def __init__(self):
        self.props = {}

    def set_bg_color(self, color):
        import re
        from .contract import Clause

        ok = isinstance(color, str) and (bool(re.match(r"^#[0-9A-Fa-f]{6}$", color)) or color.lower() in self.NAMES)
        current().add_clause(Clause("requires[xlsxwriter: a colour is #RRGGBB or a colour name]", z3.BoolVal(ok), props=("C16",), kind="requires", note=f"colour {color!r}"))
        self.props["bg_color"] = color

    def __getattr__(self, attr):
        if attr.startswith("__"):
            raise AttributeError(attr)
        return lambda *a, **k: None


class _Workbook(Recorder):
    def __init__(self, filename=None, *a, **k):
        log = []
        Recorder.__init__(self, "workbook", log)
        object.__setattr__(self, "filename", filename)
        object.__setattr__(self, "sheets", {})
        current().events.append(("workbook", self))

    def add_worksheet(self, name=None):
        ws = Recorder(f"sheet:{name}", self._log)
        self.sheets[name] = ws
        return ws

    def add_format(self, props=None):
        return GhostFormat()

    def close(self):
        self._log.append(("workbook", "close", (), {}))


class GhostFile:
    """a file opened for writing: the text is recorded, nothing touches the disk"""

    def __init__(self, name, mode):
        self.name, self.mode, self.data = name, mode, []
        current().events.append(("file", self))

    def write(self, text):
        self.data.append(text)
        return len(text)

    def __enter__(self):
        return self

    def __exit__(self, *a):
        return False

    def close(self):
        pass


def ghost_open(file, mode="r", *a, **k):
    if any(c in mode for c in "wax"):
        return GhostFile(file, mode)
    import builtins

    return builtins.open(file, mode, *a, **k)


def ghost_modules():
    mods = {}

    uuid = types.ModuleType("uuid")
    uuid.uuid4 = _uuid4
    mods["uuid"] = uuid

    time = types.ModuleType("time")

    def perf_counter():
        p = current()
        return SymReal(z3.Real(p.fresh_name("T")))

    time.perf_counter = perf_counter
    mods["time"] = time

    warnings = types.ModuleType("warnings")

    def warn(msg, *a, **k):
        current().events.append(("warn", str(msg)))

    warnings.warn = warn
    mods["warnings"] = warnings

    random = types.ModuleType("random")
    random.randint = lambda a, b: a
    mods["random"] = random

    xlsxwriter = types.ModuleType("xlsxwriter")
    xlsxwriter.Workbook = _Workbook
    mods["xlsxwriter"] = xlsxwriter

    # matplotlib / numpy / pandas ghosts are installed by the C16/C17 harness when needed
    from . import canvas

    mods.update(canvas.modules())
    return mods
