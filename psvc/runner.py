"""psvc.runner -- explore a contract case, generate and discharge its obligations, cross-check with CPython."""
import contextlib
import io
import json
import os
import sys
import time
import traceback

import z3

from . import sym, loader, ghost, discharge
from .contract import Params, OutsidePrecondition, Clause, T, case_id, REGISTRY

QUICK_TIMEOUT = 20
THOROUGH_TIMEOUT = 120


# ------------------------------------------------------------------------------ native world
_native_ps = None


def native_ps():
    """the real library, imported from the tree under verification"""
    global _native_ps
    if _native_ps is None:
        repo = loader.REPO
        if repo not in sys.path:
            sys.path.insert(0, repo)
        for k in list(sys.modules):
            if k == "processscheduler" or k.startswith("processscheduler."):
                del sys.modules[k]
        import matplotlib

        matplotlib.use("Agg")
        import processscheduler

        assert os.path.realpath(os.path.dirname(processscheduler.__file__)) == os.path.realpath(
            os.path.join(repo, "processscheduler")
        ), processscheduler.__file__
        _native_ps = processscheduler
    return _native_ps


@contextlib.contextmanager
def quiet():
    """silence the library's prints and z3's verbose output (C-level stderr) during native runs"""
    old = sys.stdout
    sys.stdout = io.StringIO()
    saved = None
    try:
        sys.stderr.flush()
        old.flush()
        saved = (os.dup(1), os.dup(2))
        dn = os.open(os.devnull, os.O_WRONLY)
        os.dup2(dn, 1)
        os.dup2(dn, 2)
        os.close(dn)
    except OSError:
        saved = None
    try:
        yield
    finally:
        sys.stdout = old
        if saved is not None:
            os.dup2(saved[0], 1)
            os.dup2(saved[1], 2)
            os.close(saved[0])
            os.close(saved[1])


def run_native(contract, case, values, pins=None):
    """returns ('ok', P, ctx) | ('raise', P, exc) | ('outside', P, None)"""
    ps = native_ps()
    import processscheduler.base as base

    base.active_problem = None
    P = Params(values)
    P.pins = dict(pins or {})
    import warnings

    with quiet(), warnings.catch_warnings(), scratch_cwd():
        warnings.simplefilter("ignore")
        try:
            ctx = contract.scenario(ps, P, case)
            return "ok", P, ctx
        except OutsidePrecondition:
            return "outside", P, None
        except Exception as e:  # noqa
            return "raise", P, e
        finally:
            reset_z3_options()


@contextlib.contextmanager
def scratch_cwd():
    """native runs of the real library happen in a scratch directory (removed afterwards): the code under test
    may write files relative to the working directory (intermediate solutions, exports)"""
    import shutil
    import tempfile

    old = os.getcwd()
    d = tempfile.mkdtemp(prefix="psvc-native-")
    os.chdir(d)
    try:
        yield d
    finally:
        os.chdir(old)
        shutil.rmtree(d, ignore_errors=True)


def reset_z3_options():
    """the real SchedulingSolver sets *global* z3 options (verbosity, unsat cores, threads, seeds, timeout);
    the checker's own queries must not inherit them"""
    z3.set_option("verbose", 0)
    z3.set_option(unsat_core=False)
    z3.set_option("parallel.enable", False)
    z3.set_option("sat.threads", 1)
    z3.set_option("smt.threads", 1)
    z3.set_option("sat.random_seed", 0)
    z3.set_option("smt.random_seed", 0)
    z3.set_option("smt.arith.random_initial_value", False)
    z3.set_option("timeout", 4294967295)


def exc_name(e):
    return type(e).__name__


# ------------------------------------------------------------------------------ formula comparison
def _consts_in_order(formulas):
    seen = []
    names = set()
    visited = set()

    def walk(e):
        i = e.get_id()
        if i in visited:
            return
        visited.add(i)
        if z3.is_quantifier(e):
            walk(e.body())
            return
        if z3.is_app(e):
            if e.num_args() == 0 and e.decl().kind() == z3.Z3_OP_UNINTERPRETED:
                if e.decl().name() not in names:
                    names.add(e.decl().name())
                    seen.append(e)
            for c in e.children():
                walk(c)

    for f in formulas:
        walk(f)
    return seen


def equivalent_modulo_fresh(fs_engine, fs_native, timeout_s=10):
    """are the two formula lists pairwise equivalent, up to a renaming of the constants whose names
    differ (uuid-tagged / FreshInt / names containing a formatted symbolic parameter)?"""
    if len(fs_engine) != len(fs_native):
        return False, f"length {len(fs_engine)} vs {len(fs_native)}"
    ce = _consts_in_order(fs_engine)
    cn = _consts_in_order(fs_native)
    ne = {c.decl().name() for c in ce}
    nn = {c.decl().name() for c in cn}
    only_e = [c for c in ce if c.decl().name() not in nn]
    only_n = [c for c in cn if c.decl().name() not in ne]
    if len(only_e) != len(only_n):
        return False, f"fresh constants {len(only_e)} vs {len(only_n)}: {only_e[:4]} / {only_n[:4]}"
    subs = []
    for a, b in zip(only_e, only_n):
        if a.sort() != b.sort():
            return False, f"sort mismatch {a} / {b}"
        subs.append((a, b))
    for i, (fe, fn) in enumerate(zip(fs_engine, fs_native)):
        fe2 = z3.substitute(fe, *subs) if subs else fe
        if fe2.eq(fn):
            continue
        s = z3.Solver()
        s.set("timeout", int(timeout_s * 1000))
        s.add(fe2 != fn)
        r = s.check()
        if r == z3.sat:
            return False, f"formula #{i} differs: engine {fe2} / native {fn}"
        if r == z3.unknown:
            return None, f"formula #{i}: equivalence undecided"
    return True, ""


def subst_params(formula, P, values):
    subs = []
    for name, t in P.terms.items():
        if name in values:
            v = values[name]
            subs.append((t, z3.BoolVal(v) if isinstance(v, bool) else z3.IntVal(v)))
    return z3.substitute(formula, *subs) if subs else formula


# ------------------------------------------------------------------------------ one job
class Result(dict):
    pass


def pc_values(path, P, extra=()):
    """a concrete parameter valuation on this path (None if PC unsat)"""
    s = z3.Solver()
    s.set("timeout", 10000)
    s.add(*path.pc)
    s.add(*extra)
    if s.check() != z3.sat:
        return None
    m = s.model()
    return discharge.model_values(m, P.terms)


def target_exists(contract):
    try:
        loader.load().function_source(contract.target)
        return True
    except KeyError:
        return False


def run_case(contract_id, case, props, tier="quick", seed=0, diff=True):
    """explore one structural case of one contract. Returns a picklable report."""
    t_start = time.perf_counter()
    contract = REGISTRY[contract_id]
    L = loader.load(loop_contracts=getattr(contract, "loop_contracts", None))
    if getattr(contract, "optional_target", False) and not target_exists(contract):
        # a lemma about a private helper that no longer exists under that name: not applicable (the public-level
        # contracts, which execute whatever replaced it, carry the property)
        return {"contract": contract_id, "case": case_id(case), "target": contract.target, "obligations": [], "paths": 0, "unsupported": [], "faults": [], "diff_points": 0,
                "sentinels": [], "assumptions": [], "solver_time_s": 0.0, "wall_s": 0.0, "executed": [], "helper_missing": contract.target}
    timeout = QUICK_TIMEOUT if tier == "quick" else THOROUGH_TIMEOUT
    cross = tier == "thorough"
    eng = sym.Engine()
    holder = {}

    def fn(path):
        L.reset_globals()
        P = Params()
        holder[id(path)] = P
        undo = L.apply_stubs(contract.stubs(L)) if hasattr(contract, "stubs") else None
        try:
            ctx = contract.scenario(L.ps, P, case)
        finally:
            if undo:
                undo()
        return ctx

    report = {
        "contract": contract_id,
        "target": contract.target,
        "case": case_id(case),
        "obligations": [],
        "paths": 0,
        "unsupported": [],
        "faults": [],
        "diff_points": 0,
        "sentinels": [],
        "assumptions": [],
        "solver_time_s": 0.0,
    }
    if getattr(contract, "native_only", False):
        # bounded native layer: the scenario is run on the real library only (share of the property that
        # is the dependency's behaviour: JSON by pydantic, SMT-LIB text by z3, pixels by matplotlib)
        cid0 = case_id(case)

        def oid0(clause_name, prop):
            return f"{prop}/{contract.target}/{clause_name}" + (f"[{cid0}]" if cid0 else "")

        kind, Pn, res = run_native(contract, case, {})
        report["paths"] = 1
        if kind == "raise":
            import traceback as _tb

            for prop in props:
                if prop in contract.props:
                    report["obligations"].append({"id": oid0(f"native[no exception: {exc_name(res)}]", prop), "prop": prop, "kind": "raises", "path": 0, "bounded": contract.bounded or "native grid", "status": "refuted", "clause": "native[no exception]", "params": {}, "schedule": {}, "note": f"{exc_name(res)}: {res}"[:400], "raised": exc_name(res), "regions": {}, "trace": "".join(_tb.format_exception(type(res), res, res.__traceback__)[-3:])})
            return report
        for cl in contract.clauses(Pn, res, case):
            for prop in cl.props:
                if prop not in props:
                    continue
                r = discharge.check(cl.hyps + [z3.Not(cl.goal)], 30)
                report["solver_time_s"] += r["time_s"]
                report["obligations"].append({"id": oid0(cl.name, prop), "prop": prop, "kind": cl.kind, "path": 0, "bounded": (cl.bounded if cl.bounded is not None else (contract.bounded if contract.bounded is not None else "native grid")), "status": "discharged" if r["answer"] == "unsat" else ("not_lifted" if getattr(cl, "soft", False) else ("unknown" if r["answer"] != "sat" else "refuted")), "clause": cl.name, "params": {}, "schedule": {}, "note": cl.note, "raised": None, "regions": {}, "backend": r["backend"]})
        report["diff_points"] = 1
        return report
    executed = set()
    mon = getattr(sys, "monitoring", None)
    tool = None
    if mon is not None:
        try:
            tool = 3
            mon.use_tool_id(tool, "psvc")
            pkgdir = os.path.join(loader.REPO, "processscheduler") + os.sep

            def _start(code, offset):
                if code.co_filename.startswith(pkgdir):
                    executed.add(os.path.basename(code.co_filename)[:-3] + "." + code.co_qualname)
                return mon.DISABLE

            mon.register_callback(tool, mon.events.PY_START, _start)
            mon.set_events(tool, mon.events.PY_START)
        except Exception:  # noqa
            tool = None
    try:
        results = eng.explore(fn)
    except sym.Unsupported as e:
        report["unsupported"].append(f"exploration: {e}")
        return report
    finally:
        if tool is not None:
            try:
                mon.set_events(tool, 0)
                mon.register_callback(tool, mon.events.PY_START, None)
                mon.free_tool_id(tool)
            except Exception:  # noqa
                pass
        report["executed"] = sorted(x for x in executed if "<" not in x)
    report["paths"] = len(results)
    report["assumptions"] = sorted(eng.assumptions)
    cid = case_id(case)

    def oid(clause_name, prop):
        return f"{prop}/{contract.target}/{clause_name}" + (f"[{cid}]" if cid else "")

    for pi, (path, outcome) in enumerate(results):
        P = holder[id(path)]
        kind = outcome[0]
        pc = list(path.pc)
        if kind == "unsupported":
            report["unsupported"].append(f"path {path.prefix}: {outcome[1]}")
            if diff:
                _native_probe(report, contract, case, path, P, props, pi)
            continue
        for cl in path.side_clauses:
            _discharge_clause(report, contract, case, path, P, pc[: getattr(cl, "_pc_len", len(pc))], cl, props, oid, timeout, cross, seed, pi)
        if kind == "cut":
            # loop-contract paths: obligations were collected at the cut
            continue
        try:
            expected = contract.raises(P, case)
        except Exception as e:  # noqa
            report["faults"].append(f"raises(): {type(e).__name__}: {e}")
            expected = []
        if kind == "raise":
            e = outcome[1]
            name = exc_name(e)
            conds = [T(c) for (n, c) in expected if n == name]
            tb = "".join(traceback.format_exception(type(e), e, e.__traceback__)[-3:])
            goal = z3.Or(*conds) if conds else z3.BoolVal(False)
            rprops = _props_of_raises(contract, props)
            # an exception the contract does not announce concerns every property: the scenario
            # cannot reach the function's postcondition on this path
            for prop in props:
                nm = f"raises_only_if[{name}]" if prop in rprops else f"reaches_postcondition[no unexpected {name}]"
                cl = Clause(nm, goal, props=(prop,), kind="raises", note=f"{name}: {e}"[:300])
                cl._trace = tb
                _discharge_clause(report, contract, case, path, P, pc, cl, props, oid, timeout, cross, seed, pi, raised=name)
            continue
        # normal end
        ctx = outcome[1]
        for n, c in expected:
            for prop in _props_of_raises(contract, props):
                cl = Clause(f"raises_if[{n}]", z3.Not(T(c)), props=(prop,), kind="raises")
                _discharge_clause(report, contract, case, path, P, pc, cl, props, oid, timeout, cross, seed, pi)
        try:
            clauses = contract.clauses(P, ctx, case)
            sentinels = contract.sentinels(P, ctx, case)
        except sym.Unsupported as e:
            report["unsupported"].append(f"clauses(): {e}")
            continue
        except Exception as e:  # noqa
            report["faults"].append(f"clauses() raised {type(e).__name__}: {e}\n{traceback.format_exc()[-1500:]}")
            continue
        for cl in clauses:
            _discharge_clause(report, contract, case, path, P, pc, cl, props, oid, timeout, cross, seed, pi)
        for cl in sentinels:
            if not set(cl.props) & set(props):
                continue
            r = discharge.check(pc + cl.hyps + [z3.Not(cl.goal)], timeout)
            report["solver_time_s"] += r["time_s"]
            report["sentinels"].append({"name": cl.name, "refuted": r["answer"] == "sat", "path": pi})
        # CPython differential on this path (thorough: three different parameter valuations of the path)
        if diff:
            _differential(report, contract, case, path, P, pc, ctx, clauses, props, seed, pi)
            if tier == "thorough" and getattr(contract, "diff", "formulas") == "formulas":
                extra = []
                for _ in range(2):
                    v = pc_values(path, P, extra)  # the valuation the previous differential used
                    if v is None:
                        break
                    block = [P.terms[n] != (z3.BoolVal(x) if isinstance(x, bool) else z3.IntVal(x)) for n, x in v.items() if isinstance(x, (int, bool))]
                    if not block:
                        break
                    extra.append(z3.Or(*block))
                    if pc_values(path, P, extra) is None:
                        break
                    _differential(report, contract, case, path, P, pc, ctx, clauses, props, seed, pi, extra=list(extra))
    for name, vals, goal, cn, pi_ in report.pop("native_false", []):
        if not any(ob["clause"] == name and ob["status"] == "refuted" for ob in report["obligations"]):
            report["faults"].append(f"differential(eval): clause {name} is discharged on every engine path but false on the native run at {vals}: {goal}"[:1200])
            _native_refuted(report, contract, case, cn, props, vals, pi_)
    report["wall_s"] = time.perf_counter() - t_start
    return report


def _props_of_raises(contract, props):
    rp = getattr(contract, "raises_props", ("C18",))
    return [p for p in rp if p in props]


def _discharge_clause(report, contract, case, path, P, pc, cl, props, oid, timeout, cross, seed, pi, raised=None):
    for prop in cl.props:
        if prop not in props:
            continue
        ob = {
            "id": oid(cl.name, prop),
            "prop": prop,
            "kind": cl.kind,
            "path": pi,
            "bounded": cl.bounded or contract.bounded,
            "lifts": bool(getattr(contract, "lifts", False)) and cl.kind in ("sound", "equals", "complete", "state"),
            "status": None,
            "clause": cl.name,
        }
        # vacuity: hypotheses must be satisfiable on this path
        if cl.hyps and cl.kind in ("sound", "equals") and not getattr(cl, "may_be_vacuous", False):
            rv = discharge.check(pc + cl.hyps, timeout)
            report["solver_time_s"] += rv["time_s"]
            if rv["answer"] == "unsat":
                # a soundness clause over a contradictory assertion set holds trivially; the contradiction
                # itself is a *completeness* matter (C05) and is reported there. Counted, and guarded
                # per contract: a contract all of whose cases are vacuous is a checker fault.
                ob["status"] = "discharged"
                ob["vacuous"] = True
                ob["backend"] = rv["backend"]
                report["obligations"].append(ob)
                continue
        r = discharge.check(pc + cl.hyps + [z3.Not(cl.goal)], timeout, cross=cross, seed=seed)
        report["solver_time_s"] += r["time_s"]
        if not any("smt2_head" in o for o in report["obligations"]):
            try:
                txt = discharge.smt2_text(pc + cl.hyps + [z3.Not(cl.goal)])
                ob["smt2_head"] = txt[:900] + (" ..." if len(txt) > 900 else "")
                ob["smt2_chars"] = len(txt)
            except Exception:  # noqa
                pass
        ob["backend"] = r["backend"]
        ob["time_s"] = round(r["time_s"], 4)
        if r["answer"] == "unsat":
            ob["status"] = "discharged"
        elif r["answer"] == "sat" and r["model"] is None:
            # refuted by a command-line back end (z3's API said unknown): fetch the counterexample's values
            others = {
                c.decl().name(): c
                for c in _consts_in_order(cl.hyps + [cl.goal])
                if not c.decl().name().startswith("P_")
            }
            allc = {("P_" + n): t for n, t in P.terms.items()}
            allc.update(others)
            vals = discharge.cli_values(pc + cl.hyps + [z3.Not(cl.goal)], allc, timeout)
            if vals is None:
                ob["status"] = "unknown"
                ob["detail"] = f"{r['backend']} answers sat but no model could be obtained"
            else:
                ob["status"] = "refuted"
                ob["params"] = {n: vals["P_" + n] for n in P.terms}
                ob["schedule"] = {n: vals[n] for n in others}
                ob["note"] = cl.note
                ob["trace"] = getattr(cl, "_trace", None)
                ob["raised"] = raised
                ob["regions"] = {}
        elif r["answer"] == "sat":
            ob["status"] = "refuted"
            m = r["model"]
            params = discharge.model_values(m, P.terms)
            others = {
                c.decl().name(): c
                for c in _consts_in_order(cl.hyps + [cl.goal])
                if not c.decl().name().startswith("P_")
            }
            ob["params"] = params
            ob["schedule"] = discharge.model_values(m, others)
            ob["note"] = cl.note
            ob["trace"] = getattr(cl, "_trace", None)
            ob["raised"] = raised
            ob["clause"] = cl.name
            # which excusable regions does the obligation fail in?
            ob["regions"] = {}
            for rn, rf in cl.regions.items():
                rin = discharge.check(pc + cl.hyps + [z3.Not(cl.goal), rf], timeout)
                rout = discharge.check(pc + cl.hyps + [z3.Not(cl.goal), z3.Not(rf)], timeout)
                report["solver_time_s"] += rin["time_s"] + rout["time_s"]
                ob["regions"][rn] = {"fails_inside": rin["answer"], "fails_outside": rout["answer"]}
                if rout["answer"] == "sat":
                    mo = rout["model"]
                    ob["regions"][rn]["outside_params"] = discharge.model_values(mo, P.terms)
                    ob["regions"][rn]["outside_schedule"] = discharge.model_values(mo, others)
                if rin["answer"] == "sat":
                    mi = rin["model"]
                    ob["regions"][rn]["inside_params"] = discharge.model_values(mi, P.terms)
                    ob["regions"][rn]["inside_schedule"] = discharge.model_values(mi, others)
        elif r["answer"] == "disagree":
            ob["status"] = "fault"
            ob["detail"] = f"back ends disagree: {r['cross']}"
        else:
            ob["status"] = "unknown"
        report["obligations"].append(ob)


def _differential(report, contract, case, path, P, pc, ctx, clauses, props, seed, pi=None, extra=()):
    vals = pc_values(path, P, extra)
    if vals is None:
        return
    # parameters not constrained by the path get the solver's default; all parameters need a value
    for n in P.order:
        vals.setdefault(n, False if z3.is_bool(P.terms[n]) else 0)
    try:
        kind, Pn, res = run_native(contract, case, vals)
    except sym.Unsupported as e:
        report["faults"].append(f"differential: native scenario unsupported: {e}")
        return
    report["diff_points"] += 1
    if kind == "outside":
        report["faults"].append(f"differential: precondition false natively at {vals}")
        return
    if kind == "raise":
        if any(ob["path"] == pi and ob["clause"].startswith("requires[") and ob["status"] == "refuted" for ob in report["obligations"]):
            return  # the engine refuted a dependency's precondition on this path: the native exception is that violation
        report["faults"].append(
            f"differential: engine path {path.prefix} ends normally but CPython raises {exc_name(res)}: {res} at {vals}"
        )
        if _raised_in_library(res):
            # the real code rejects an input the contract says it accepts: a failing input, natively observed
            try:
                announced = {n for (n, c) in contract.raises(Pn, case) if z3.is_true(z3.simplify(T(c)))}
            except Exception:  # noqa
                announced = set()
            name = exc_name(res)
            if name not in announced:
                rprops = _props_of_raises(contract, props)
                for prop in props:
                    nm = f"raises_only_if[{name}]" if prop in rprops else f"reaches_postcondition[no unexpected {name}]"
                    cn = Clause(nm, z3.BoolVal(False), props=(prop,), kind="raises", note=f"{name}: {res}"[:300])
                    _native_refuted(report, contract, case, cn, props, vals, pi, raised=name)
        return
    try:
        ncl = contract.clauses(Pn, res, case)
    except Exception as e:  # noqa
        report["faults"].append(f"differential: clauses() on the native objects raised {type(e).__name__}: {e}")
        return
    if getattr(contract, "diff", "formulas") == "eval":
        # solver-level scenarios: natively z3 picks one model; the clauses built on the native objects
        # are closed facts about that run and must simply hold (a runtime check of the postconditions)
        # natively z3 returns *some* model, not the one of this engine path: a clause that is false on
        # the native run must be refuted on some engine path of this case (checked when the case ends)
        for cn in ncl:
            if not set(cn.props) & set(props):
                continue
            r = discharge.check(cn.hyps + [z3.Not(cn.goal)], 30)
            if r["answer"] == "sat":
                report.setdefault("native_false", []).append((cn.name, dict(vals), str(cn.goal)[:600], cn, pi))
        return
    if [c.name for c in ncl] != [c.name for c in clauses]:
        report["faults"].append(f"differential: clause lists differ at {vals}")
        return
    for ce, cn in zip(clauses, ncl):
        if not set(ce.props) & set(props):
            continue
        fe = [subst_params(f, P, vals) for f in ce.hyps + [ce.goal]]
        fn = cn.hyps + [cn.goal]
        # compare hypotheses as a conjunction (list structure may legitimately differ only in order of
        # construction, never in content) and the goal
        ok, why = equivalent_modulo_fresh(
            [z3.And(*fe[:-1]) if len(fe) > 1 else z3.BoolVal(True), fe[-1]],
            [z3.And(*fn[:-1]) if len(fn) > 1 else z3.BoolVal(True), fn[-1]],
        )
        if ok is False:
            report["faults"].append(f"differential: clause {ce.name} at {vals}: {why}"[:1500])
            # the formulas CPython builds are the real ones: decide the clause on them at this parameter point
            rn_ = discharge.check(cn.hyps + [z3.Not(cn.goal)], 30)
            if rn_["answer"] == "sat":
                _native_refuted(report, contract, case, cn, props, vals, pi)


def _native_refuted(report, contract, case, cn, props, vals, pi, raised=None):
    """a clause that is false on a native run of the real code at concrete parameters `vals`: a failing input in
    its own right, whatever the engine concluded.  Recorded as a refuted obligation (the report replays it)."""
    cid = case_id(case)
    for prop in cn.props:
        if prop not in props:
            continue
        oid = f"{prop}/{contract.target}/{cn.name}" + (f"[{cid}]" if cid else "")
        if any(o["id"] == oid and o["status"] == "refuted" for o in report["obligations"]):
            continue
        ob = {
            "id": oid,
            "prop": prop,
            "kind": cn.kind,
            "path": pi,
            "bounded": cn.bounded or contract.bounded,
            "lifts": False,
            "status": "refuted",
            "clause": cn.name,
            "params": {k: v for k, v in vals.items()},
            "schedule": {},
            "note": cn.note,
            "trace": getattr(cn, "_trace", None),
            "raised": raised,
            "backend": "cpython (native run)",
            "observed_natively": True,
            "regions": {},
        }
        for rn, rf in (cn.regions or {}).items():
            rin = discharge.check(cn.hyps + [z3.Not(cn.goal), rf], 30)
            rout = discharge.check(cn.hyps + [z3.Not(cn.goal), z3.Not(rf)], 30)
            ob["regions"][rn] = {"fails_inside": rin["answer"], "fails_outside": rout["answer"], "inside_params": dict(vals), "outside_params": dict(vals), "inside_schedule": {}, "outside_schedule": {}}
        report["obligations"].append(ob)


def _native_probe(report, contract, case, path, P, props, pi):
    """a path the engine cannot follow (undecided): the real code is still run natively at one parameter point of
    the path and its postconditions evaluated there -- a false one is a failing input; a true one decides nothing"""
    try:
        vals = pc_values(path, P, ())
    except Exception:  # noqa
        return
    if vals is None:
        return
    for n in P.order:
        vals.setdefault(n, False if z3.is_bool(P.terms[n]) else 0)
    try:
        kind, Pn, res = run_native(contract, case, vals)
    except Exception:  # noqa
        return
    report["diff_points"] += 1
    if kind == "raise":
        if _raised_in_library(res):
            try:
                announced = {n for (n, c) in contract.raises(Pn, case) if z3.is_true(z3.simplify(T(c)))}
            except Exception:  # noqa
                announced = set()
            name = exc_name(res)
            if name not in announced:
                rprops = _props_of_raises(contract, props)
                for prop in props:
                    nm = f"raises_only_if[{name}]" if prop in rprops else f"reaches_postcondition[no unexpected {name}]"
                    _native_refuted(report, contract, case, Clause(nm, z3.BoolVal(False), props=(prop,), kind="raises", note=f"{name}: {res}"[:300]), props, vals, pi, raised=name)
        return
    if kind != "ok":
        return
    try:
        ncl = contract.clauses(Pn, res, case)
    except Exception:  # noqa
        return
    for cn in ncl:
        if not set(cn.props) & set(props):
            continue
        r = discharge.check(cn.hyps + [z3.Not(cn.goal)], 30)
        if r["answer"] == "sat":
            _native_refuted(report, contract, case, cn, props, vals, pi)


def _raised_in_library(e):
    """is the innermost frame of the exception inside the code under verification (or something it called),
    rather than in the contract / scenario code of /verif?"""
    tb = e.__traceback__
    files = []
    while tb is not None:
        files.append(tb.tb_frame.f_code.co_filename)
        tb = tb.tb_next
    here = os.path.dirname(os.path.dirname(os.path.abspath(__file__)))
    lib = [i for i, f in enumerate(files) if os.sep + "processscheduler" + os.sep in f]
    mine = [i for i, f in enumerate(files) if f.startswith(here)]
    return bool(lib) and (not mine or max(lib) > max(mine))


# ------------------------------------------------------------------------------ replay
def replay(contract_id, case, clause_name, params, raised=None, schedule=None):
    """re-run a refuted obligation against the real library. returns dict(confirmed, observation)"""
    import re

    contract = REGISTRY[contract_id]
    pins = None
    if getattr(contract, "diff", "formulas") == "eval" and schedule:
        # steer the real solver to the counterexample: pin the unknowns of the first returned model
        pins = {}
        for k, v in schedule.items():
            m = re.match(r"^m(\d+)!(.+)$", k)
            if m and isinstance(v, (int, bool)) and "!" not in m.group(2):
                first = min(int(re.match(r"^m(\d+)!", kk).group(1)) for kk in schedule if re.match(r"^m\d+!", kk))
                if int(m.group(1)) == first:
                    pins[m.group(2)] = v
    kind, Pn, res = run_native(contract, case, params, pins)
    obs = {"native_outcome": kind}
    if clause_name.startswith("requires["):
        # a dependency's documented precondition is violated: natively the dependency raises
        obs["native_exception"] = f"{exc_name(res)}: {res}"[:500] if kind == "raise" else None
        return {"confirmed": kind == "raise", "observation": obs}
    if clause_name == "native[no exception]":
        obs["native_exception"] = f"{exc_name(res)}: {res}"[:500] if kind == "raise" else None
        return {"confirmed": kind == "raise", "observation": obs}
    if pins:
        obs["pinned"] = pins
    if clause_name.startswith("raises_only_if[") or clause_name.startswith("reaches_postcondition["):
        want = raised if raised else clause_name[len("raises_only_if[") : -1]
        obs["native_exception"] = f"{exc_name(res)}: {res}"[:500] if kind == "raise" else None
        return {"confirmed": kind == "raise" and exc_name(res) == want, "observation": obs}
    if clause_name.startswith("raises_if["):
        want = clause_name[len("raises_if[") : -1]
        obs["native_exception"] = f"{exc_name(res)}: {res}"[:500] if kind == "raise" else None
        return {"confirmed": kind == "ok", "observation": obs}
    if kind != "ok":
        obs["native_exception"] = f"{exc_name(res)}: {res}"[:500] if kind == "raise" else None
        return {"confirmed": False, "observation": obs}
    try:
        ncl = [c for c in contract.clauses(Pn, res, case) if c.name == clause_name]
    except Exception as e:  # noqa  (the contract's own code failed on the native objects: nothing is confirmed)
        return {"confirmed": False, "observation": dict(obs, error=f"clauses() on the native objects raised {type(e).__name__}: {e}"[:500])}
    if not ncl:
        return {"confirmed": False, "observation": {"error": "clause not produced natively"}}
    cl = ncl[0]
    r = discharge.check(cl.hyps + [z3.Not(cl.goal)], 60)
    obs["native_check"] = r["answer"]
    if r["answer"] == "sat":
        consts = {c.decl().name(): c for c in _consts_in_order(cl.hyps + [cl.goal])}
        obs["native_backend"] = r["backend"]
        if r["model"] is not None:
            obs["native_schedule"] = discharge.model_values(r["model"], consts)
        else:
            obs["native_schedule"] = discharge.cli_values(cl.hyps + [z3.Not(cl.goal)], {n: c for n, c in consts.items() if z3.is_int(c) or z3.is_bool(c)}, 30)
        obs["native_assertions"] = [str(h)[:300] for h in cl.hyps][:40]
        obs["violated_meaning"] = str(cl.goal)[:1000]
    return {"confirmed": r["answer"] == "sat", "observation": obs}
