"""psvc.canvas -- recording ghosts for matplotlib / pandas (numpy is the real one: only np.nan is used).

Assumed contract (C16/C17 trusted base): the drawing / data-frame libraries draw and store what they
are told; the ghosts record the calls with their (possibly symbolic) arguments."""
import types

from .sym import current


class Axes:
    def __init__(self, name, log):
        self.name = name
        self.log = log

    def __getattr__(self, attr):
        if attr.startswith("__"):
            raise AttributeError(attr)

        def call(*a, **k):
            self.log.append((self.name, attr, a, k))
            return None

        return call


class DataFrame:
    def __init__(self, data=None, *a, **k):
        self.data = data
        current().events.append(("dataframe", self))

    def to_csv(self, path_or_buf=None, index=True, sep=","):
        current().events.append(("to_csv", self, path_or_buf, index, sep))
        return CsvText(self)

    def __str__(self):
        return "<ghost dataframe>"


class CsvText(str):
    def __new__(cls, df):
        s = super().__new__(cls, "<csv text>")
        s.df = df
        return s


class _Colormap:
    def __init__(self, name, colors, N):
        self.name, self.colors, self.N = name, colors, N

    def __call__(self, i):
        return ("color", i)


class _LSC:
    @staticmethod
    def from_list(name, colors, N=256):
        return _Colormap(name, colors, N)


def modules():
    mods = {}
    log_holder = {}

    plt = types.ModuleType("matplotlib.pyplot")

    def _log():
        p = current()
        for e in p.events:
            if e[0] == "pltlog":
                return e[1]
        lg = []
        p.events.append(("pltlog", lg))
        return lg

    def subplots(nrows=1, ncols=1, **kw):
        lg = _log()
        lg.append(("plt", "subplots", (nrows, ncols), kw))
        n = nrows * ncols
        if n == 1:
            return ("fig", Axes("ax0", lg))
        return ("fig", [Axes(f"ax{i}", lg) for i in range(n)])

    plt.subplots = subplots

    def _mk(name):
        def f(*a, **k):
            _log().append(("plt", name, a, k))

        return f

    for nm in ("xticks", "subplots_adjust", "plot", "savefig", "show", "close", "figure", "legend", "title"):
        setattr(plt, nm, _mk(nm))

    mpl = types.ModuleType("matplotlib")
    mpl.pyplot = plt
    colors = types.ModuleType("matplotlib.colors")
    colors.LinearSegmentedColormap = _LSC
    mpl.colors = colors
    mods["matplotlib"] = mpl
    mods["matplotlib.pyplot"] = plt
    mods["matplotlib.colors"] = colors

    pandas = types.ModuleType("pandas")
    pandas.DataFrame = DataFrame
    mods["pandas"] = pandas
    return mods
