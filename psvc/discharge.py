"""psvc.discharge -- validity checks with z3 (API) and, on demand, cvc5 / other z3 builds on SMT-LIB text."""
import os
import subprocess
import tempfile
import time

import z3

BACKENDS_CLI = [
    ("cvc5-1.0.3", ["/usr/bin/cvc5", "--lang=smt2", "--tlimit={ms}"]),
    ("z3-5.1.0", ["z3-new", "-smt2", "-T:{s}"]),
    ("z3-4.8.12", ["/usr/bin/z3", "-smt2", "-T:{s}"]),
]


def smt2_text(formulas):
    s = z3.Solver()
    s.add(*formulas)
    body = s.to_smt2()
    return "(set-logic ALL)\n" + body


def run_cli(formulas, timeout_s=20, only=None):
    """returns list of (backend, answer) with answer in sat|unsat|unknown|error"""
    text = smt2_text(formulas)
    out = []
    with tempfile.NamedTemporaryFile("w", suffix=".smt2", delete=False, dir=os.environ.get("PSVC_TMP", None)) as f:
        f.write(text)
        fn = f.name
    try:
        for name, cmd in BACKENDS_CLI:
            if only and name not in only:
                continue
            argv = [c.format(ms=int(timeout_s * 1000), s=int(timeout_s)) for c in cmd] + [fn]
            try:
                r = subprocess.run(argv, capture_output=True, text=True, timeout=timeout_s + 5)
                first = (r.stdout.strip().splitlines() or ["error"])[0].strip()
                ans = first if first in ("sat", "unsat", "unknown") else "error"
            except (subprocess.TimeoutExpired, FileNotFoundError):
                ans = "unknown"
            out.append((name, ans))
            if ans in ("sat", "unsat") and not only:
                break
    finally:
        os.unlink(fn)
    return out


def cli_values(formulas, consts, timeout_s=20):
    """ask cvc5 / z3 CLI for a model restricted to the given constants (name -> z3 const). returns dict or None"""
    import re

    if not consts:
        return {}
    text = smt2_text(formulas).replace("(check-sat)", "")
    names = list(consts)
    text = "(set-option :produce-models true)\n" + text + "\n(check-sat)\n(get-value (" + " ".join(f"|{n}|" if not re.match(r"^[A-Za-z_][A-Za-z0-9_]*$", n) else n for n in names) + "))\n"
    with tempfile.NamedTemporaryFile("w", suffix=".smt2", delete=False) as f:
        f.write(text)
        fn = f.name
    try:
        for name, cmd in BACKENDS_CLI:
            argv = [c.format(ms=int(timeout_s * 1000), s=int(timeout_s)) for c in cmd] + [fn]
            try:
                r = subprocess.run(argv, capture_output=True, text=True, timeout=timeout_s + 5)
            except (subprocess.TimeoutExpired, FileNotFoundError):
                continue
            out = r.stdout.strip()
            if not out.startswith("sat"):
                continue
            vals = {}
            for m in re.finditer(r"\(\|?([^\s()|]+)\|?\s+(\(-\s*(\d+)\)|-?\d+|true|false)\)", out):
                n, v = m.group(1), m.group(2)
                if v in ("true", "false"):
                    vals[n] = v == "true"
                elif v.startswith("("):
                    vals[n] = -int(m.group(3))
                else:
                    vals[n] = int(v)
            if all(n in vals for n in names):
                return vals
    finally:
        os.unlink(fn)
    return None


def check(formulas, timeout_s=20, cross=False, seed=0):
    """satisfiability of the conjunction. returns dict(answer, model, backend, time_s, cross)"""
    t0 = time.perf_counter()
    s = z3.Solver()
    s.set("timeout", int(timeout_s * 1000))
    if seed:
        s.set("random_seed", seed % 1000)
    s.add(*formulas)
    quantified = any(_has_quantifier(f) for f in formulas)
    if quantified:
        # first a short attempt; then the split over the Boolean unknowns; then the full budget
        s.set("timeout", int(min(timeout_s, 3) * 1000))
    r = s.check()
    res = {"answer": str(r), "model": None, "backend": "z3-4.12.6-api", "cross": None}
    if quantified and r == z3.unknown:
        split = _case_split(formulas, timeout_s, seed)
        if split is not None:
            res.update(split)
            r = None
        else:
            s.set("timeout", int(timeout_s * 1000))
            r = s.check()
            res["answer"] = str(r)
    if r == z3.sat:
        res["model"] = s.model()
    elif r == z3.unknown:
        for name, ans in run_cli(formulas, timeout_s):
            if ans in ("sat", "unsat"):
                res["answer"], res["backend"] = ans, name
                break
    if cross and res["answer"] in ("sat", "unsat"):
        cr = run_cli(formulas, min(timeout_s, 15), only=("cvc5-1.0.3",))  # a cross-check that times out is no verdict
        res["cross"] = cr
        for name, ans in cr:
            if ans in ("sat", "unsat") and ans != res["answer"]:
                res["answer"] = "disagree"
    res["time_s"] = time.perf_counter() - t0
    return res


def _bool_consts(formulas, limit=6):
    seen, out, todo = set(), [], list(formulas)
    while todo:
        e = todo.pop()
        if e.get_id() in seen:
            continue
        seen.add(e.get_id())
        if z3.is_quantifier(e):
            todo.append(e.body())
            continue
        if z3.is_const(e) and z3.is_bool(e) and e.decl().kind() == z3.Z3_OP_UNINTERPRETED:
            out.append(e)
            if len(out) > limit:
                return None
        todo.extend(e.children())
    return sorted(out, key=lambda c: c.decl().name())


def _case_split(formulas, timeout_s, seed=0):
    """a quantified query the solvers leave open is split over the values of its (few) Boolean unknowns; each
    case is simplified and decided on its own.  unsat iff every case is unsat; a sat case is a model of the whole"""
    import itertools

    if not any(_has_quantifier(f) for f in formulas):
        return None
    flags = _bool_consts(formulas)
    if not flags:
        return None
    for vals in itertools.product((False, True), repeat=len(flags)):
        subs = [(f, z3.BoolVal(v)) for f, v in zip(flags, vals)]
        fs = [z3.simplify(z3.substitute(f, *subs)) for f in formulas]
        if any(z3.is_false(f) for f in fs):
            continue
        s = z3.Solver()
        s.set("timeout", int(timeout_s * 1000))
        if seed:
            s.set("random_seed", seed % 1000)
        s.add(*fs)
        s.add(*[f == v for f, v in subs])
        r = s.check()
        if r == z3.sat:
            return {"answer": "sat", "model": s.model(), "backend": "z3-4.12.6-api+case-split"}
        if r == z3.unknown:
            for name, ans in run_cli(fs, timeout_s):
                if ans == "unsat":
                    break
            else:
                return None
    return {"answer": "unsat", "model": None, "backend": "z3-4.12.6-api+case-split"}


def _has_quantifier(e):
    seen, todo = set(), [e]
    while todo:
        x = todo.pop()
        if x.get_id() in seen:
            continue
        seen.add(x.get_id())
        if z3.is_quantifier(x):
            return True
        todo.extend(x.children())
    return False


def model_values(model, consts):
    """python values of the given z3 constants in a model (model completion on)"""
    out = {}
    for name, c in consts.items():
        v = model.eval(c, model_completion=True)
        if z3.is_int_value(v):
            out[name] = v.as_long()
        elif z3.is_true(v):
            out[name] = True
        elif z3.is_false(v):
            out[name] = False
        elif z3.is_rational_value(v):
            out[name] = v.numerator_as_long() / v.denominator_as_long()
        else:
            out[name] = str(v)
    return out
