#!/venv/bin/python
"""re-run the surviving mutants of a selftest/*.jsonl file (after strengthening the checks); rewrites their entries.
   tools/rerun_survivors.py [selftest/mutants.jsonl] [--defaults]"""
import json
import os
import sys

sys.path.insert(0, "/verif/tools")
import mutate  # noqa: E402

path = next((a for a in sys.argv[1:] if not a.startswith("--")), "/verif/selftest/mutants.jsonl")
defaults = "--defaults" in sys.argv
rows = [json.loads(l) for l in open(path)]
out = []
work = "/tmp/psvc-mutants-rerun"
os.makedirs(work, exist_ok=True)
if defaults:
    import mutate_defaults

    table = {(f, ln, what): text for f, ln, what, text in mutate_defaults.mutants()}
cache = {}
for r in rows:
    if r["caught_by"]:
        out.append(r)
        continue
    if defaults:
        text = table.get((r["file"], r["line"], r["mutation"]))
    else:
        if r["file"] not in cache:
            cache[r["file"]] = {(ln, what): text for ln, what, text in mutate.mutants_of(os.path.join(mutate.REPO, mutate.PKG, r["file"]))}
        text = cache[r["file"]].get((r["line"], r["mutation"]))
    if text is None:
        r["note"] = "source changed since: mutant no longer defined at this line"
        out.append(r)
        continue
    res = mutate.run_mutant(r["file"], r["line"], r["mutation"], text, 12, work)
    print(r["file"], r["line"], r["mutation"], "->", res["caught_by"] or {p: c["exit"] for p, c in res["checks"].items()}, flush=True)
    out.append(res)
with open(path, "w") as f:
    for r in out:
        f.write(json.dumps(r) + "\n")
import shutil

shutil.rmtree(work, ignore_errors=True)
