#!/venv/bin/python
"""re-run the surviving mutants of selftest/mutants.jsonl (after strengthening the checks); rewrites their entries"""
import json, sys, os
sys.path.insert(0, '/verif/tools')
import mutate
rows=[json.loads(l) for l in open('/verif/selftest/mutants.jsonl')]
out=[]
os.makedirs('/tmp/psvc-mutants2', exist_ok=True)
for r in rows:
    if r['caught_by']:
        out.append(r); continue
    ms = {(ln, what): text for ln, what, text in mutate.mutants_of(os.path.join(mutate.REPO, mutate.PKG, r['file']))}
    key=(r['line'], r['mutation'])
    if key not in ms:
        r['note']='source changed since: mutant no longer defined at this line'; out.append(r); continue
    res = mutate.run_mutant(r['file'], r['line'], r['mutation'], ms[key], 12, '/tmp/psvc-mutants2')
    print(r['file'], r['line'], r['mutation'], '->', res['caught_by'] or {p:c['exit'] for p,c in res['checks'].items()}, flush=True)
    out.append(res)
with open('/verif/selftest/mutants.jsonl','w') as f:
    for r in out: f.write(json.dumps(r)+'\n')
