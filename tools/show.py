#!/venv/bin/python
"""show refuted obligations of one contract/case: tools/show.py PROP CONTRACT [case-substring] [clause-substring]"""
import sys, json
sys.path.insert(0, '/verif')
from psvc import contract as C, runner
C.load_contracts()
prop, cid = sys.argv[1], sys.argv[2]
csub = sys.argv[3] if len(sys.argv) > 3 else ''
clsub = sys.argv[4] if len(sys.argv) > 4 else ''
n = 0
for case in C.REGISTRY[cid].cases('quick'):
    if csub and csub not in C.case_id(case): continue
    r = runner.run_case(cid, case, (prop,), 'quick', diff=False)
    for f in r['faults'] + r['unsupported']: print('FAULT/UNSUP', f[:800])
    for ob in r['obligations']:
        if ob['status'] != 'discharged' and clsub in ob['id']:
            print(ob['status'], ob['id']); print('  params', ob.get('params')); print('  sched ', ob.get('schedule')); print('  note', ob.get('note'), ob.get('regions'))
            n += 1
            if n >= 3: sys.exit()
