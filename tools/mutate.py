#!/venv/bin/python
"""Mutation self-test: single-token mutations of /repo/processscheduler applied to a scratch copy (outside
/repo and /verif, removed at once); each mutant is run against the checks of the properties its file serves.

  tools/mutate.py [--per-file N] [--files a.py,b.py] [--seed S] [--jobs J] [--out selftest/mutants.jsonl]

A mutant is *caught* when some check exits 1 (a replayed violation).  Exit 2/3 are recorded as such
(undecided / checker fault: not a detection).  Survivors are triaged by hand (equivalent mutants, mutants
outside every property, or a gap to close) in selftest/TRIAGE.md."""
import argparse
import ast
import json
import os
import random
import shutil
import subprocess
import sys
import time

REPO = "/repo"
PKG = "processscheduler"
PROPS = {
    "task.py": ["C01", "C02", "C05", "C06", "C18", "C11", "C08"],
    "resource.py": ["C02", "C18", "C04", "C08"],
    "constraint.py": ["C10", "C03", "C18"],
    "task_constraint.py": ["C03", "C05", "C06", "C18", "C09"],
    "resource_constraint.py": ["C04", "C05", "C18", "C06"],
    "first_order_logic.py": ["C10"],
    "indicator.py": ["C08", "C07", "C05"],
    "objective.py": ["C08", "C07", "C05"],
    "function.py": ["C08", "C16"],
    "indicator_constraint.py": ["C08", "C10", "C18", "C05"],
    "buffer.py": ["C09", "C18"],
    "util.py": ["C03", "C04", "C08", "C09"],
    "problem.py": ["C18", "C14", "C01", "C05"],
    "solver.py": ["C01", "C02", "C07", "C09", "C11", "C12", "C13", "C15", "C19", "C16", "C10", "C06"],
    "solution.py": ["C16", "C11", "C17"],
    "excel_io.py": ["C16"],
    "plotter.py": ["C17"],
    "base.py": ["C18", "C14", "C01", "C08"],
}
SKIP_FUNCS = {"plot_function", "render_gantt_plotly", "get_parameters_description", "print_assertions", "print_statistics", "print_solution", "__repr__", "__str__", "ser_model", "calc_parabola_from_three_points", "to_json", "to_json_file", "add_from_json", "add_from_json_file"}
SINKS = {"append_z3_assertion", "set_z3_assertions", "append_z3_list_of_assertions", "append", "extend", "add_busy_interval", "push", "pop", "minimize", "maximize"}


def mutants_of(path):
    src = open(path).read()
    tree = ast.parse(src)
    lines = src.splitlines(keepends=True)
    offs = [0]
    for l in lines:
        offs.append(offs[-1] + len(l))

    def pos(n):
        return offs[n.lineno - 1] + len(lines[n.lineno - 1].encode()[: n.col_offset].decode()), offs[n.end_lineno - 1] + len(lines[n.end_lineno - 1].encode()[: n.end_col_offset].decode())

    out = []
    parents = {}
    for p in ast.walk(tree):
        for c in ast.iter_child_nodes(p):
            parents[c] = p

    def in_skipped(n):
        while n in parents:
            n = parents[n]
            if isinstance(n, ast.FunctionDef) and n.name in SKIP_FUNCS:
                return True
        return False

    def is_annotation(n):
        c = n
        while c in parents:
            p = parents[c]
            if isinstance(p, ast.AnnAssign) and p.annotation is c:
                return True
            if isinstance(p, (ast.arguments, ast.arg)):
                return True
            c = p
        return False

    for n in ast.walk(tree):
        if not hasattr(n, "lineno") or in_skipped(n) or is_annotation(n):
            continue
        if isinstance(n, ast.Compare) and len(n.ops) == 1:
            a, b = pos(n.left)[1], pos(n.comparators[0])[0]
            op = src[a:b]
            swaps = {"<=": "<", "<": "<=", ">=": ">", ">": ">=", "==": "!=", "!=": "=="}
            o = op.strip()
            if o in swaps:
                out.append((n.lineno, f"cmp {o}->{swaps[o]}", src[:a] + op.replace(o, swaps[o]) + src[b:]))
        elif isinstance(n, ast.BinOp) and isinstance(n.op, (ast.Add, ast.Sub)):
            a, b = pos(n.left)[1], pos(n.right)[0]
            op = src[a:b]
            o = op.strip()
            if o in ("+", "-"):
                out.append((n.lineno, f"arith {o}->{'-' if o == '+' else '+'}", src[:a] + op.replace(o, "-" if o == "+" else "+") + src[b:]))
        elif isinstance(n, ast.Constant) and isinstance(n.value, int) and not isinstance(n.value, bool) and n.value in (0, 1, 2, 100):
            a, b = pos(n)
            if src[a:b].strip().isdigit():
                out.append((n.lineno, f"const {n.value}->{n.value + 1}", src[:a] + str(n.value + 1) + src[b:]))
        elif isinstance(n, ast.BoolOp):
            a, b = pos(n.values[0])[1], pos(n.values[1])[0]
            op = src[a:b]
            o = op.strip()
            if o in ("and", "or"):
                out.append((n.lineno, f"bool {o}->{'or' if o == 'and' else 'and'}", src[:a] + op.replace(o, "or" if o == "and" else "and") + src[b:]))
        elif isinstance(n, ast.UnaryOp) and isinstance(n.op, ast.Not):
            a, b = pos(n)
            inner = pos(n.operand)
            out.append((n.lineno, "drop not", src[:a] + src[inner[0] : inner[1]] + src[b:]))
        elif isinstance(n, ast.Expr) and isinstance(n.value, ast.Call) and isinstance(n.value.func, ast.Attribute) and n.value.func.attr in SINKS:
            a, b = pos(n)
            out.append((n.lineno, f"drop call .{n.value.func.attr}()", src[:a] + "pass" + src[b:]))
        elif isinstance(n, ast.Attribute) and isinstance(n.value, ast.Name) and n.value.id == "z3" and n.attr in ("And", "Or") and isinstance(parents.get(n), ast.Call):
            a, b = pos(n)
            other = "Or" if n.attr == "And" else "And"
            out.append((n.lineno, f"z3.{n.attr}->z3.{other}", src[:a] + "z3." + other + src[b:]))
        elif isinstance(n, ast.If) and not n.orelse and not in_skipped(n):
            # negate the condition
            a, b = pos(n.test)
            out.append((n.lineno, "negate if", src[:a] + "not (" + src[a:b] + ")" + src[b:]))
    # keep only mutants that compile
    good = []
    for ln, what, text in out:
        try:
            compile(text, path, "exec")
            good.append((ln, what, text))
        except SyntaxError:
            pass
    return good


def run_mutant(fname, ln, what, text, jobs, workdir):
    d = os.path.join(workdir, "m")
    if os.path.exists(d):
        shutil.rmtree(d)
    os.makedirs(d)
    shutil.copytree(os.path.join(REPO, PKG), os.path.join(d, PKG), ignore=shutil.ignore_patterns("__pycache__"))
    with open(os.path.join(d, PKG, fname), "w") as f:
        f.write(text)
    res = {"file": fname, "line": ln, "mutation": what, "checks": {}, "caught_by": None}
    # does the package still import?
    r = subprocess.run(["/venv/bin/python", "-c", "import sys; sys.path.insert(0, sys.argv[1]); import processscheduler"], input="", capture_output=True, text=True, cwd="/tmp", args=None) if False else subprocess.run(["/venv/bin/python", "-c", f"import sys; sys.path.insert(0, {d!r}); import processscheduler"], capture_output=True, text=True, cwd="/tmp")
    if r.returncode != 0:
        res["caught_by"] = "import"
        shutil.rmtree(d)
        return res
    env = dict(os.environ, PSVC_REPO=d, PSVC_JOBS=str(jobs))
    for prop in PROPS[fname]:
        t0 = time.time()
        try:
            r = subprocess.run(["/verif/check", prop, "--no-evidence"], capture_output=True, text=True, env=env, timeout=1500)
            code = r.returncode
            first = next((l for l in r.stdout.splitlines() if l.startswith("VIOLATION")), None)
        except subprocess.TimeoutExpired:
            code, first = 124, None
        res["checks"][prop] = {"exit": code, "s": round(time.time() - t0, 1), "first": first}
        if code == 1:
            res["caught_by"] = prop
            break
    shutil.rmtree(d)
    return res


def main():
    ap = argparse.ArgumentParser()
    ap.add_argument("--per-file", type=int, default=10)
    ap.add_argument("--files", default="")
    ap.add_argument("--seed", type=int, default=1)
    ap.add_argument("--jobs", type=int, default=8)
    ap.add_argument("--out", default="/verif/selftest/mutants.jsonl")
    ap.add_argument("--workdir", default="/tmp/psvc-mutants")
    a = ap.parse_args()
    os.makedirs(os.path.dirname(a.out), exist_ok=True)
    os.makedirs(a.workdir, exist_ok=True)
    rnd = random.Random(a.seed)
    files = [f for f in PROPS if not a.files or f in a.files.split(",")]
    done = set()
    if os.path.exists(a.out):
        for l in open(a.out):
            d = json.loads(l)
            done.add((d["file"], d["line"], d["mutation"]))
    for fname in files:
        ms = mutants_of(os.path.join(REPO, PKG, fname))
        rnd.shuffle(ms)
        for ln, what, text in ms[: a.per_file]:
            if (fname, ln, what) in done:
                continue
            res = run_mutant(fname, ln, what, text, a.jobs, a.workdir)
            with open(a.out, "a") as f:
                f.write(json.dumps(res) + "\n")
            print(f"{fname}:{ln} {what}: {'CAUGHT by ' + res['caught_by'] if res['caught_by'] else 'survived ' + str({p: c['exit'] for p, c in res['checks'].items()})}", flush=True)
    shutil.rmtree(a.workdir, ignore_errors=True)


if __name__ == "__main__":
    main()
