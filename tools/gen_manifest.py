#!/usr/bin/env python3
"""regenerate MANIFEST.json from the table below (keeps the file schema-valid)"""
import json, os
ROOT = os.path.dirname(os.path.dirname(os.path.abspath(__file__)))
BASELINE = "cd /repo && /venv/bin/python -m pytest -ra -q -p no:cacheprovider --timeout=900 --continue-on-collection-errors"

LEVEL_NOTE = ("Trusted: the psvc engine (symbolic proxies + exhaustive path forking over the real source executed by CPython), "
              "z3 4.12.6 (+cvc5/z3 CLI on unknown), assumed contracts of dependencies (z3py constructors parametric in numerals, "
              "pydantic enforces declared field constraints, ghost solver contract sat/unsat/push/pop, uuid uniqueness), "
              "and the specifications written from the property statements and docs/. Collections are bounded shapes unless stated "
              "(bounded obligations are reported separately and never counted as proved).")

CHECKS = {
 # id: (technique, level category, text, design_ref)
 "C01": ("contract-based deductive verification: per-path VCs from symbolic execution of the real task constructors + initialize, discharged by z3",
         "proof", "Soundness/completeness contracts on FixedDurationTask/ZeroDurationTask/VariableDurationTask.__init__, Task.set_assertions and the task loop of SchedulingSolver.initialize, for symbolic durations/release/due/horizon, all schedules (universally quantified unknowns)", "4/C01"),
 "C02": ("contract-based deductive verification: VCs from symbolic execution of add_required_resource / SelectWorkers / CumulativeWorker / initialize, discharged by z3",
         "proof", "Contracts on Task.add_required_resource (static, delayed, dynamic: unbounded in all integers), SelectWorkers.__init__, CumulativeWorker expansion, the pairwise-disjointness and work-amount sections of initialize; capacity and selection lists are bounded shapes (reported as bounded)", "4/C02"),
 "C03": ("contract-based deductive verification: soundness contract per task-constraint class, VCs by symbolic execution of the real constructors + initialize, z3",
         "proof", "One soundness contract per task-constraint class over all task-kind combinations and symbolic parameters: single/two-task constraints unbounded; list constraints (contiguous, groups, N-in-intervals) over bounded list shapes", "4/C03"),
 "C04": ("contract-based deductive verification: soundness contract per resource-constraint class, VCs by symbolic execution, z3; periodic constraints via a proved quantifier-elimination lemma",
         "proof", "Soundness contracts for ResourceUnavailable, ResourcePeriodicallyUnavailable, WorkLoad, ResourceTasksDistance, ResourceNonDelay, ResourceInterrupted, ResourcePeriodicallyInterrupted, SameWorkers, DistinctWorkers with symbolic interval endpoints/bounds/distances/offsets; busy-interval counts, interval-list lengths and periods are bounded shapes", "4/C04"),
 "C05": ("contract-based deductive verification: completeness contracts in witness / existential form for every encoder, z3",
         "proof", "Completeness (meaning => exists aux. asserted set) of every task, assignment, task-constraint and resource-constraint encoder under contract, with auxiliary unknowns existential; known incompletenesses are carved out as regions in known_findings.json and must stay the only failing regions", "4/C05"),
 "C06": ("contract-based deductive verification: 'scheduled = mandatory' and 'left out = deleted' obligations per encoder, z3",
         "proof", "For each encoder that can name an optional task: soundness guarded by the scheduled flags, completeness with the task left out (witness at the conventional point), the four optional-task rules and their rejections", "4/C06"),
 "C10": ("contract-based deductive verification: each connective's assertion proved equivalent to the Boolean combination of its operands' own assertion sets; frame and non-enforcement obligations on initialize",
         "proof", "Equivalence contracts for Not/And/Or/Xor/Implies/IfThenElse over raw, single-assertion, multi-assertion and nested operands; optional constraints compared with their mandatory twin (Implies(applied, phi)); ForceApplyN count; ConstraintFromExpression", "4/C10"),
 "C18": ("contract-based deductive verification: raises_iff obligations over symbolic parameters, acceptance predicate read from the real pydantic field declarations",
         "proof", "For each constructor the listed ill-formedness conditions are proved to raise on every path and every well-formed input to be accepted (an unannounced exception on any path of any contract fails an obligation)", "4/C18"),
 "C08": ("contract-based deductive verification: `equals` contract per indicator (indicator variable = definition on the schedule) over what initialize() asserts, z3",
         "proof", "Equality contracts for utilisation, number of tasks assigned, resource cost (constant/linear/quadratic), idle time, tardiness, earliness, number tardy, maximum lateness, flow time, weighted completion/start, smallest/greatest start, user expressions, targets and bounds; task/busy-interval counts are bounded shapes, horizons for the utilisation quotient are taken from a list", "4/C08"),
 "C07": ("contract-based deductive verification: loop invariant of the incremental optimiser over a ghost solver (loop-cut rule: init, preservation for one arbitrary iteration, exit => post), objective-wiring contracts; z3",
         "proof", "Loop contract on _solve_optimize_incremental: for every iteration count and every interruption point the result is a model of the problem's constraints, no worse than any value found before, optimal on the unsat exit and (under the declared-bound hypothesis) on the bound exit; create_objective registers exactly the declared objective(s) / their weighted sum for both optimisers and all priority modes", "4/C07"),
 "C11": ("contract-based deductive verification: postconditions on the SchedulingSolution returned by solve()/build_solution over a ghost model (every model of the asserted set), z3",
         "proof", "Contract on build_solution (through solve and check_sat): end - start = duration, assigned_resources <-> assignments, assignment interval implied by the requirement, cumulative workers under their own name, unscheduled tasks carry no assignment, horizon >= ends, calendar times; requirement shapes are bounded", "4/C11"),
 "C12": ("contract-based deductive verification: method contracts with ghost history on find_another_solution / find_another_solution_for_variable over the ghost solver, z3",
         "proof", "Each request returns a model of the problem's constraints that differs from the current (and every earlier) solution, fails only when no such model exists (instantiated unsat answer), raises without a current solution; call sequences of bounded length", "4/C12"),
 "C13": ("contract-based deductive verification: object invariant (stack == problem's constraint system, no open scope, registries unchanged) preserved by every public method; loop contract for the incremental optimiser",
         "proof", "Invariant checked after every call of bounded call sequences (initialize, export_to_smt2, solve, second solver) for both optimisers, and for solve() with the incremental optimiser through the loop contract (unbounded iterations)", "4/C13"),
 "C15": ("contract-based deductive verification: configuration independence of the asserted set, solver selection and objective wiring over all option combinations (path-exhaustive), z3",
         "proof", "For every combination of debug x parallel x random_values x logics x optimizer (x priority): initialize() stacks a set equivalent to the default configuration's, selects Optimize/SolverFor/Solver as declared, sets every global z3 option; then validity of returned schedules is C01-C04's (never mentions the configuration). Agreement of z3's answers across logics is z3's soundness (trusted)", "4/C15"),
 "C19": ("contract-based deductive verification: ghost map invariant of the debug path + unsat-core postcondition of solve() over the ghost solver",
         "proof", "In debug mode every asserted formula is tracked under its own name, a mapped name belongs to the constraint owning the formula, unmapped ones are basic rules; on unsat the printed constraints are exactly the owners of the core's formulas and, with the basic rules, cover the core (jointly unsatisfiable by the solver contract); debug does not change the asserted set. Cores: singletons, pairs, whole set (bounded)", "4/C19"),
 "C09": ("contract-based deductive verification: postcondition on the reported BufferSolution (through initialize, the sort helpers, clean_buffer_levels and build_solution) for every model of the asserted set; completeness by witnesses; z3",
         "proof", "Reported level sequence = initial level plus the quantities of the accesses in time order, final level, bounds after every instant, no simultaneous access on a non-concurrent buffer; one buffer with up to 3 accessing tasks (bounded), quantities/levels/bounds symbolic; completeness for 1-2 buffers", "4/C09"),
 "C14": ("contract-based deductive verification: relational obligations over two symbolic runs of the real code (renamed twin, permuted twin, problem built after unrelated problems), z3",
         "proof", "Renaming: constraint system of the renamed problem = renamed constraint system; permutation: each order admits the other's schedules up to auxiliary unknowns (A1 => exists aux2. A2 and conversely); earlier problems leave no trace (registries, constraint system, z3 options). Bounded problem family, integers symbolic; z3's behaviour on alpha-equivalent inputs is trusted", "4/C14"),
 "C16": ("contract-based deductive verification with recording ghosts for pandas/xlsxwriter/files (what is written is proved for all solutions of the shape); JSON round trip and SMT-LIB re-parse only as a bounded native layer",
         "proof", "to_df/to_csv columns = reported fields; Excel: one block per assignment / scheduled task at columns start+1..end, name column never overwritten, valid colours, indicators sheet; export_to_smt2 writes the text of exactly the stacked formulas for both optimisers. JSON (pydantic) and SMT-LIB text (z3 printer) are checked natively on a grid and reported as bounded", "4/C16"),
 "C17": ("contract-based deductive verification with recording ghost axes: the bars/labels/step plot handed to matplotlib are proved for all solutions of the shape; the real renderer is run natively (bounded)",
         "proof", "Resource view: one bar per reported assignment on its resource's row from start to end; task view: one bar per scheduled task, none for unscheduled; zero-length marker centred; centred labels; buffer step function; wrong render mode rejected. That matplotlib draws what it is told is assumed", "4/C17"),
}
NOT_YET = {}

def main():
    props = [json.loads(l) for l in open(os.path.join(ROOT, "properties.jsonl"))]
    checks = []
    na = []
    for p in props:
        pid = p["id"]
        if pid in CHECKS:
            tech, cat, text, ref = CHECKS[pid]
            try:
                ev = json.load(open(os.path.join(ROOT, "evidence", f"{pid}.json")))
                c = ev["coverage"]
                text += (f" [last recorded quick run: {c['obligations']} unbounded obligations (symbolic integers, loop-free, loop-contract or loop-independence) all discharged; "
                         f"{c['bounded_obligations']['count']} obligations over bounded collection shapes, labelled bounded and never counted as proved; "
                         f"{len(c.get('known_findings', []))} known-finding carve-outs]")
            except Exception:
                pass
            checks.append({
                "property_id": pid,
                "quick_cmd": f"./check {pid} --tier quick",
                "thorough_cmd": f"./check {pid} --tier thorough",
                "evidence_file": f"evidence/{pid}.json",
                "replay_cmd_template": "./check --replay {path}",
                "engine": "psvc",
                "level_claimed": {"category": cat, "text": text, "design_ref": f"DESIGN.md section {ref}"},
                "level_note": LEVEL_NOTE,
                "technique": tech,
            })
        else:
            na.append({"property_id": pid, "reason": NOT_YET.get(pid, "check not built yet in this round (contract-based verification planned, see DESIGN.md section 4)")})
    m = {
        "version": 1,
        "setup_cmd": "/venv/bin/python -c \"import z3, pydantic, xlsxwriter, matplotlib; print('psvc: dependencies present')\"",
        "hooks": {"guard": "PROCESSSCHEDULER_VERIF", "enable": "no hooks are needed: psvc reads the source of /repo's working tree and replays through the public API", "baseline_off_cmd": BASELINE, "source_commits": [], "add_only": True},
        "engines": [{"name": "psvc", "path": "psvc/", "serves_properties": sorted(CHECKS), "kind_free_text": "VC generator: symbolic execution (z3-proxy values, fork by re-execution) of the real processscheduler source re-read on every run, sidecar contracts in contracts/, z3/cvc5 discharge, CPython differential and native replay"}],
        "checks": checks,
        "not_applicable": na,
        "notes": "Exit codes of ./check: 0 ok, 1 violation (replayed on the real code), 2 undecided, 3 checker fault. Known findings: known_findings.json.",
    }
    json.dump(m, open(os.path.join(ROOT, "MANIFEST.json"), "w"), indent=1)

if __name__ == "__main__":
    main()
