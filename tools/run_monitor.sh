#!/bin/sh
# runtime contract monitoring of the repository's own tests (evidence about the specifications, not a check):
# every solution returned during the 337 baseline tests is checked against the solution-level meanings
out=${1:-/verif/selftest/monitor_result.jsonl}
cd /repo && PSVC_MONITOR_LOG="$out" PYTHONPATH=/verif/tools /venv/bin/python -m pytest -q -p monitor_plugin -p no:cacheprovider --timeout=900 test | tail -1
tail -1 "$out"
