#!/bin/sh
# tools/check_refactor.sh : apply each kept behaviour-preserving refactoring (selftest/refactor/*.diff, written by
# independent sub-agents: a rename / restructure clean-up against /repo commit 498c6e0, a "performance and readability
# pass" that rewrites z3 terms into equivalent ones against f13786f, a "clean-up / modernisation" centred on solver.py
# -- methods split into private helpers, dispatch helpers, early returns -- against f13786f) to a scratch worktree of /repo HEAD and run every
# check against it: each must exit 0 (NOTE lines about loops or helpers are fine).  Hunks that no longer apply
# (files repaired since) are left out.
rc=0
for patch in /verif/selftest/refactor/*.diff; do
  dir=/tmp/refactor-check.$$
  git -C /repo worktree add --detach "$dir" HEAD -q || exit 9
  echo "== $(basename $patch)"
  (cd "$dir" && git apply --3way "$patch" >/dev/null 2>&1; for f in $(git diff --name-only --diff-filter=U); do git checkout HEAD -- "$f"; echo "left out (conflict): $f"; done)
  for i in 01 02 03 04 05 06 07 08 09 10 11 12 13 14 15 16 17 18 19; do
    out=$(PSVC_REPO="$dir" /verif/check C$i --no-evidence 2>&1)
    code=$?
    echo "C$i exit $code $(echo "$out" | grep -c '^NOTE') notes"
    [ $code -ne 0 ] && { rc=1; echo "$out" | grep -E '^VIOLATION|^FAULT|^UNDEC' | head -5; }
  done
  git -C /repo worktree remove --force "$dir"
done
exit $rc
