"""Runtime contract monitoring of the repository's own test-suite (evidence about the *specifications*).

pytest plugin: wraps SchedulingSolver.solve / find_another_solution; every returned solution is checked
against the solution-level meanings used by the contracts (C01 task timing, C02 worker exclusivity and
assignment intervals, C03/C04 per-constraint meanings for the classes below, C08 a few indicators, C09
buffer replay, C11 self-consistency).  A firing monitor is either a defect the test does not assert or a
meaning stricter than the maintainers' intent; each line is printed to PSVC_MONITOR_LOG.

    cd /repo && PYTHONPATH=/verif/tools /venv/bin/python -m pytest -q -p monitor_plugin -p no:cacheprovider test
"""
import itertools
import json
import os

LOG = os.environ.get("PSVC_MONITOR_LOG", "/tmp/psvc-monitor.jsonl")
COUNTS = {"solutions": 0, "checks": 0, "violations": 0}


def report(test, what, detail):
    COUNTS["violations"] += 1
    with open(LOG, "a") as f:
        f.write(json.dumps({"test": test, "what": what, "detail": detail}, default=str) + "\n")


def check_solution(solver, sol, test):
    import processscheduler as ps

    pb = solver.problem
    COUNTS["solutions"] += 1

    def chk(cond, what, detail):
        COUNTS["checks"] += 1
        if not cond:
            report(test, what, detail)

    T = sol.tasks
    # ---- C01 / C11
    for name, task in pb.tasks.items():
        ts = T[name]
        if not ts.scheduled:
            chk(task.optional, "C11 mandatory task reported unscheduled", name)
            chk(ts.assigned_resources == [], "C06/C11 unscheduled task carries an assignment", (name, ts.assigned_resources))
            continue
        chk(ts.start >= 0, "C01 start < 0", (name, ts.start))
        chk(ts.end <= sol.horizon, "C01 end > horizon", (name, ts.end, sol.horizon))
        chk(ts.end - ts.start == ts.duration, "C01/C11 end - start != duration", (name, ts.start, ts.end, ts.duration))
        if isinstance(task, ps.FixedDurationTask):
            chk(ts.duration == task.duration, "C01 fixed duration", (name, ts.duration, task.duration))
        elif isinstance(task, ps.ZeroDurationTask):
            chk(ts.duration == 0, "C01 zero duration", (name, ts.duration))
        else:
            chk(ts.duration >= task.min_duration, "C01 min duration", (name, ts.duration))
        if task.release_date is not None:
            chk(ts.start >= task.release_date, "C01 release date", (name, ts.start, task.release_date))
        if task.due_date is not None and task.due_date_is_deadline:
            chk(ts.end <= task.due_date, "C01 deadline", (name, ts.end, task.due_date))
    if pb.horizon is not None:
        chk(sol.horizon == pb.horizon, "C11 horizon reported", (sol.horizon, pb.horizon))
    # ---- C02 / C11 assignments
    for rn, rs in sol.resources.items():
        ivs = [(s, e, n) for (n, s, e) in rs.assignments if e > s]
        is_cumulative = rn in pb.cumulative_workers
        if not is_cumulative:
            for (s1, e1, n1), (s2, e2, n2) in itertools.combinations(ivs, 2):
                chk(e1 <= s2 or e2 <= s1, "C02 worker busy with two tasks at once", (rn, (n1, s1, e1), (n2, s2, e2)))
        else:
            size = pb.cumulative_workers[rn].size
            pts = sorted({s for s, _, _ in ivs})
            for p in pts:
                chk(sum(1 for s, e, _ in ivs if s <= p < e) <= size, "C02 cumulative capacity exceeded", (rn, p))
        for (n, s, e) in rs.assignments:
            chk(n in T and T[n].scheduled, "C11 assignment of an unscheduled/unknown task", (rn, n))
            if n in T:
                chk(rn in T[n].assigned_resources, "C11 assignment not mirrored in the task's assigned_resources", (rn, n))
                chk(T[n].start <= s and e <= T[n].end, "C02 busy interval outside the task's span", (rn, n, s, e, T[n].start, T[n].end))
    for name, ts in T.items():
        for rn in ts.assigned_resources:
            chk(rn in sol.resources and any(a[0] == name for a in sol.resources[rn].assignments), "C11 assigned resource lists no assignment for the task", (name, rn))
    # ---- C03 / C04 for mandatory, top-level constraints
    def sch(t):
        return T[t.name].scheduled

    for c in pb.constraints.values():
        if c.optional or c._created_from_assertion:
            continue
        k = type(c).__name__
        try:
            if k == "TaskStartAt" and sch(c.task) and isinstance(c.value, int):
                chk(T[c.task.name].start == c.value, "C03 TaskStartAt", (c.name,))
            elif k == "TaskEndAt" and sch(c.task) and isinstance(c.value, int):
                chk(T[c.task.name].end == c.value, "C03 TaskEndAt", (c.name,))
            elif k == "TaskStartAfter" and sch(c.task) and isinstance(c.value, int):
                s = T[c.task.name].start
                chk(s > c.value if c.kind == "strict" else s >= c.value, "C03 TaskStartAfter", (c.name, s, c.value))
            elif k == "TaskEndBefore" and sch(c.task) and isinstance(c.value, int):
                e = T[c.task.name].end
                chk(e < c.value if c.kind == "strict" else e <= c.value, "C03 TaskEndBefore", (c.name, e, c.value))
            elif k == "TaskPrecedence" and hasattr(c.task_before, "optional") and sch(c.task_before) and sch(c.task_after):
                a, b = T[c.task_before.name].end + c.offset, T[c.task_after.name].start
                chk({"lax": a <= b, "strict": a < b, "tight": a == b}[c.kind], "C03 TaskPrecedence", (c.name, a, b, c.kind))
            elif k == "TasksStartSynced" and sch(c.task_1) and sch(c.task_2):
                chk(T[c.task_1.name].start == T[c.task_2.name].start, "C03 TasksStartSynced", (c.name,))
            elif k == "TasksEndSynced" and sch(c.task_1) and sch(c.task_2):
                chk(T[c.task_1.name].end == T[c.task_2.name].end, "C03 TasksEndSynced", (c.name,))
            elif k == "TasksDontOverlap" and sch(c.task_1) and sch(c.task_2):
                a, b = T[c.task_1.name], T[c.task_2.name]
                chk(a.end <= b.start or b.end <= a.start, "C03 TasksDontOverlap", (c.name,))
            elif k == "ResourceUnavailable":
                names = [c.resource.name]
                for rn in names:
                    if rn in sol.resources:
                        for (n, s, e) in sol.resources[rn].assignments:
                            for lo, hi in c.list_of_time_intervals:
                                chk(not (e > s and s < hi and lo < e), "C04 ResourceUnavailable", (c.name, n, s, e, lo, hi))
            elif k == "WorkLoad":
                rn = c.resource.name
                if rn in sol.resources:
                    for (lo, hi), bound in c.dict_time_intervals_and_bound.items():
                        tot = sum(max(0, min(e, hi) - max(s, lo)) for (_, s, e) in sol.resources[rn].assignments)
                        chk({"exact": tot == bound, "max": tot <= bound, "min": tot >= bound}[c.kind], "C04 WorkLoad", (c.name, (lo, hi), tot, bound, c.kind))
        except Exception as e:  # noqa  (symbolic values, groups as operands ...: outside the monitor's reach)
            pass
    # ---- C09 buffers
    for b in pb.buffers:
        if b.name not in sol.buffers:
            continue
        bs = sol.buffers[b.name]
        ev = {}
        for t, q in b._unloading_tasks.items():
            ev.setdefault(T[t.name].start, 0)
            ev[T[t.name].start] -= q
        for t, q in b._loading_tasks.items():
            ev.setdefault(T[t.name].end, 0)
            ev[T[t.name].end] += q
        times = sorted(ev)
        chk(list(bs.level_change_times) == times, "C09 level change times", (b.name, bs.level_change_times, times))
        lv = bs.level[0]
        want = [lv]
        for tm in times:
            lv += ev[tm]
            want.append(lv)
        chk(list(bs.level) == want, "C09 levels", (b.name, bs.level, want))
        if b.initial_level is not None:
            chk(bs.level[0] == b.initial_level, "C09 initial level", (b.name,))
        if b.final_level is not None:
            chk(bs.level[-1] == b.final_level, "C09 final level", (b.name,))
        for l in bs.level:
            chk((b.lower_bound is None or l >= b.lower_bound) and (b.upper_bound is None or l <= b.upper_bound), "C09 bounds", (b.name, l))
    # ---- C08 a few indicators
    for ind in pb.indicators.values():
        k = type(ind).__name__
        if ind.name not in sol.indicators:
            continue
        v = sol.indicators[ind.name]
        if k == "IndicatorResourceUtilization" and type(ind.resource).__name__ == "Worker" and sol.horizon > 0:
            rn = ind.resource.name
            busy = sum(e - s for (_, s, e) in sol.resources[rn].assignments) if rn in sol.resources else 0
            chk(v * sol.horizon <= 100 * busy < (v + 1) * sol.horizon, "C08 utilisation", (ind.name, v, busy, sol.horizon))
        elif k == "IndicatorNumberTasksAssigned" and type(ind.resource).__name__ == "Worker":
            rn = ind.resource.name
            chk(v == len(sol.resources[rn].assignments), "C08 number of tasks assigned", (ind.name, v))
        elif k == "IndicatorTardiness":
            tasks = ind.list_of_tasks if ind.list_of_tasks is not None else list(pb.tasks.values())
            want = sum(t.priority * max(0, T[t.name].end - t.due_date) for t in tasks if T[t.name].scheduled)
            chk(v == want, "C08 tardiness", (ind.name, v, want))
        elif k == "IndicatorNumberOfTardyTasks":
            tasks = ind.list_of_tasks if ind.list_of_tasks is not None else list(pb.tasks.values())
            want = sum(1 for t in tasks if T[t.name].scheduled and T[t.name].end > t.due_date)
            chk(v == want, "C08 number of tardy tasks", (ind.name, v, want))


def pytest_configure(config):
    import processscheduler as ps

    if os.path.exists(LOG):
        os.unlink(LOG)
    current = {"test": None}
    config._psvc_current = current
    orig = ps.SchedulingSolver.solve

    def solve(self):
        r = orig(self)
        if r:
            try:
                check_solution(self, r, current["test"])
            except Exception as e:  # noqa
                report(current["test"], "monitor error", f"{type(e).__name__}: {e}")
        return r

    ps.SchedulingSolver.solve = solve


def pytest_runtest_setup(item):
    item.config._psvc_current["test"] = item.nodeid


def pytest_sessionfinish(session, exitstatus):
    with open(LOG, "a") as f:
        f.write(json.dumps({"summary": COUNTS}) + "\n")
