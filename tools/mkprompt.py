"""prompt for a sub-agent that seeds one property-breaking change (it gets the property text and a scratch worktree only)

  python3 tools/mkprompt.py <base dir> <property id> <already used areas> <preferred areas> <how the demo judges>"""
import sys

BASE, ID, used, prefer, judge = sys.argv[1:6]
print(f"""You are helping to evaluate a checker for the Python library ProcessScheduler (scheduling problems encoded as Z3 constraints). You have a private scratch git worktree of the library at {BASE}/{ID} (work ONLY there; never touch /repo, never look into /verif, never use `git stash` -- it is shared between worktrees; to undo a change use `git checkout -- <file>` or `git apply -R`).

The property under study is in {BASE}/out-{ID}/property.json (read it: statement, quantifier, anchors).

Your task: produce ONE realistic source change to the library (under processscheduler/) that BREAKS this property -- the kind of slip a maintainer could make in a refactor, tidy-up, optimisation or feature tweak -- while
  (a) the package still imports and the whole existing test-suite still passes:  cd {BASE}/{ID} && /venv/bin/python -m pytest -q -p no:cacheprovider --timeout=900 test   (4 plotly-related tests fail on the unchanged tree too; ignore exactly those; everything else must pass as before; if some unrelated timing-sensitive test fails once while the machine is busy, re-run it alone),
  (b) the violation needs something specific to show up (particular parameter values, a particular combination of features or of other elements present in the problem, a particular solver option or call order) -- not something that every use would hit,
  (c) it is different from these areas, which were already used: {used} Prefer e.g. {prefer}

Deliver in {BASE}/out-{ID}/ :
  patch.diff   -- `git diff` of your change (relative to the worktree root, applies with `git apply`)
  demo.py      -- a standalone script run as  `PYTHONPATH=<tree> /venv/bin/python demo.py`  that uses only the public API, exits 0 on the unchanged tree and exits 1 (printing what is wrong: the concrete input and the observed vs. expected behaviour) on the changed tree. It must judge the property itself ({judge}), not compare with hard-coded solver output that could legitimately differ.
  meta.json    -- {{"property": "{ID}", "summary": "<what was changed and why it looks innocent>", "trigger": "<what is needed for the violation to show>", "tests": "<the pytest summary line with the change applied>"}}

Verify before you finish: demo exits 0 without the patch and 1 with it; the test-suite result with the patch equals the result without it. Leave the worktree clean (change reverted, files created by the tests removed) at the end. Report briefly what you did.""")
