#!/bin/sh
# tools/try_seed.sh <patch.diff> <prop> [<prop>...] : run the checks against a scratch worktree of /repo HEAD + patch
patch="$1"; shift
dir=/tmp/seedtest.$$
git -C /repo worktree add --detach "$dir" HEAD -q || exit 9
if ! git -C "$dir" apply "$patch"; then echo "PATCH DOES NOT APPLY"; git -C /repo worktree remove --force "$dir"; exit 9; fi
for p in "$@"; do
  PSVC_REPO="$dir" /verif/check "$p" --no-evidence 2>&1 | grep -E "^VIOLATION|^KNOWN|^psvc|^FAULT|^UNDEC" | cut -c1-260 | awk '!seen[$0]++' | head -12
done
git -C /repo worktree remove --force "$dir"
