#!/bin/sh
# tools/confirm_seed.sh <seed-id> <srcdir> <prop> : confirm a seeded change in a scratch worktree of /repo HEAD and store it under /verif/seeded/<seed-id>
id="$1"; src="$2"; prop="$3"
dst=/verif/seeded/$id; mkdir -p "$dst"
cp "$src/patch.diff" "$dst/patch.diff"; cp "$src/demo.py" "$dst/demo.py"
dir=/tmp/seedconfirm.$id.$$
git -C /repo worktree add --detach "$dir" HEAD -q || exit 9
head=$(git -C /repo rev-parse --short HEAD)
(cd "$dir" && PYTHONPATH="$dir" /venv/bin/python "$dst/demo.py" >/dev/null 2>&1); without=$?
if ! git -C "$dir" apply "$dst/patch.diff"; then echo "$id: PATCH DOES NOT APPLY"; git -C /repo worktree remove --force "$dir"; exit 9; fi
(cd "$dir" && PYTHONPATH="$dir" /venv/bin/python "$dst/demo.py" >"$dst/demo_with.log" 2>&1); with=$?
tests=$(cd "$dir" && /venv/bin/python -m pytest -q -p no:cacheprovider --timeout=900 test 2>&1 | tail -1)
chk=$(PSVC_REPO="$dir" /verif/check "$prop" --no-evidence 2>&1 | grep -E "^VIOLATION|^psvc" | awk '!seen[$0]++')
nviol=$(echo "$chk" | grep -c "^VIOLATION")
first=$(echo "$chk" | grep "^VIOLATION" | head -1)
summary=$(echo "$chk" | grep "^psvc")
git -C /repo worktree remove --force "$dir"
tail -3 "$dst/demo_with.log" > "$dst/demo_with.tail"; rm -f "$dst/demo_with.log"
python3 - "$id" "$src" "$prop" "$head" "$without" "$with" "$tests" "$nviol" "$first" "$summary" <<'PY'
import json, sys, os
id, src, prop, head, without, with_, tests, nviol, first, summary = sys.argv[1:]
m = {}
try: m = json.load(open(os.path.join(src, 'meta.json')))
except Exception: pass
out = {"seed": id, "property": prop, "summary": m.get("summary"), "needs": m.get("needs"), "files": m.get("files"),
       "confirmed_on_repo_head": head,
       "what_i_ran": {"demo_without_change_exit": int(without), "demo_with_change_exit": int(with_), "test_suite_with_change": tests,
                      "check": f"PSVC_REPO=<scratch worktree with patch> ./check {prop}", "check_violations": int(nviol), "check_first_violation": first, "check_summary": summary},
       "caught_by": [prop] if int(nviol) > 0 else []}
json.dump(out, open(f"/verif/seeded/{id}/meta.json", "w"), indent=1)
print(id, "demo", without, with_, "|", tests, "| violations", nviol)
PY
