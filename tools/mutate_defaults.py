#!/venv/bin/python
"""Mutation self-test for *declared defaults*: every `default=<literal>` of a model field of /repo/processscheduler
is replaced by another admissible value (1 -> 2, 0 -> 1, "lax" -> "strict", True -> False ...) and the checks of the
properties the file serves are run.  A declared default is part of the documented API: leaving the argument out
must mean the documented value.   tools/mutate_defaults.py [--jobs J] [--out selftest/mutants_defaults.jsonl]"""
import argparse
import json
import os
import re
import sys

sys.path.insert(0, os.path.dirname(os.path.abspath(__file__)))
import mutate  # noqa: E402

ALT = {"1": "2", "0": "1", "True": "False", "False": "True", '"lax"': '"strict"', '"exact"': '"min"', '"max"': '"min"', '"incremental"': '"optimize"', '"pareto"': '"lex"', "20": "21"}
SKIP_FILES = {"solution.py"}  # report objects: every field is overwritten by build_solution


def mutants():
    out = []
    for fname in sorted(mutate.PROPS):
        if fname in SKIP_FILES:
            continue
        path = os.path.join(mutate.REPO, mutate.PKG, fname)
        lines = open(path).read().split("\n")
        for i, line in enumerate(lines):
            m = re.search(r"\bdefault=([A-Za-z0-9\"]+)", line)
            if not m or m.group(1) not in ALT:
                continue
            new = line[: m.start(1)] + ALT[m.group(1)] + line[m.end(1) :]
            text = "\n".join(lines[:i] + [new] + lines[i + 1 :])
            try:
                compile(text, path, "exec")
            except SyntaxError:
                continue
            # the field the default belongs to (same or an earlier line)
            j = i
            while j >= 0 and not re.match(r"\s+\w+\s*:", lines[j]):
                j -= 1
            field = lines[j].strip().split(":")[0] if j >= 0 else "?"
            out.append((fname, i + 1, f"default of {field}: {m.group(1)} -> {ALT[m.group(1)]}", text))
    return out


def main():
    ap = argparse.ArgumentParser()
    ap.add_argument("--jobs", type=int, default=10)
    ap.add_argument("--out", default="/verif/selftest/mutants_defaults.jsonl")
    ap.add_argument("--list", action="store_true")
    a = ap.parse_args()
    ms = mutants()
    if a.list:
        for f, ln, what, _ in ms:
            print(f, ln, what)
        return
    work = "/tmp/psvc-mutants-defaults"
    os.makedirs(work, exist_ok=True)
    done = set()
    if os.path.exists(a.out):
        for l in open(a.out):
            d = json.loads(l)
            done.add((d["file"], d["line"], d["mutation"]))
    for fname, ln, what, text in ms:
        if (fname, ln, what) in done:
            continue
        res = mutate.run_mutant(fname, ln, what, text, a.jobs, work)
        with open(a.out, "a") as f:
            f.write(json.dumps(res) + "\n")
        print(f"{fname}:{ln} {what}: {'CAUGHT by ' + res['caught_by'] if res['caught_by'] else 'survived ' + str({p: c['exit'] for p, c in res['checks'].items()})}", flush=True)
    import shutil

    shutil.rmtree(work, ignore_errors=True)


if __name__ == "__main__":
    main()
