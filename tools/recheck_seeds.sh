#!/bin/sh
# re-run the check of each kept seeded change against /repo HEAD + patch (scratch worktree); prints one line per seed
#   tools/recheck_seeds.sh [Cnn ...]   -- only the seeds of these properties
for d in /verif/seeded/*/; do
  id=$(basename $d)
  prop=$(python3 -c "import json;print(json.load(open('$d/meta.json'))['property'])")
  if [ $# -gt 0 ]; then case " $* " in *" $prop "*) ;; *) continue;; esac; fi
  [ "$id" = "C05-a" ] && prop="C09"
  dir=/tmp/seedre.$id.$$
  git -C /repo worktree add --detach "$dir" HEAD -q || continue
  if ! git -C "$dir" apply "$d/patch.diff" 2>/dev/null; then echo "$id: PATCH DOES NOT APPLY TO HEAD"; git -C /repo worktree remove --force "$dir"; continue; fi
  out=$(PSVC_REPO="$dir" /verif/check "$prop" --no-evidence 2>&1 | grep -E "^VIOLATION|^psvc" | awk '!seen[$0]++')
  n=$(echo "$out" | grep -c "^VIOLATION")
  echo "$id [$prop]: $n violations; $(echo "$out" | grep '^psvc' | sed -E 's/.*-> (exit [0-9]).*/\1/')"
  git -C /repo worktree remove --force "$dir"
done
