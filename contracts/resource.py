"""Contracts on resource assignment (C02, C05, C06, C18): Task.add_required_resource (three branches),
SelectWorkers.__init__, CumulativeWorker.__init__/_distribute_p_over_n/get_select_workers, and the
worker, pairwise-disjointness and work-amount sections of SchedulingSolver.initialize.

Meanings (C02 statement, docs/resource_assignment.md):
  static      held => busy_start = start + delay_in /\\ busy_end = end - early_out   (delay_in, early_out >= 0)
  dynamic     held => start <= busy_start <= busy_end <= end
  selection   held_w = selected_w /\\ scheduled ; held workers from the list only ; cmp(kind)(#selected, nb)
  exclusive   two held busy intervals of positive length of one worker never share an instant
  cumulative  at most `size` held tasks of positive length share an instant
  work amount scheduled /\\ work_amount > 0 /\\ has resources => sum productivity * busy length >= work_amount
"""
import itertools

import z3

from psvc.contract import Contract, Clause, register, T, And, Or, Not, Implies, If, asserted
from psvc import spec
from contracts.task import make_task, TASK_CLASSES
from contracts.task_constraint import assume_valid_task, valid_placement, fresh_consts, KINDS6, dated_kw


def busy(worker, task):
    return worker._busy_intervals[task]


def decode(code):
    cls = {"F": "FixedDurationTask", "Z": "ZeroDurationTask", "V": "VariableDurationTask"}[code[0]]
    return cls, code[1] == "o"


CODES = [f"{c[0]}{'o' if o else 'm'}" for c, o in KINDS6]


@register
class StaticAssignment(Contract):
    target = "task.Task.add_required_resource"
    inlines = (
        "resource.Resource.add_busy_interval",
        "resource.Worker.__init__",
        "resource.Resource.__init__",
        "problem.SchedulingProblem.add_resource_worker",
        "solver.SchedulingSolver.initialize",
    )
    props = ("C02", "C05", "C06", "C18")
    raises_props = ("C18",)

    def cases(self, tier):
        out = []
        for t in CODES:
            for mode in ("static", "delayed", "dynamic"):
                out.append(dict(t=t, mode=mode))
        # the same for tasks that declare a release date and a (soft / hard) due date
        for mode in ("static", "delayed", "dynamic"):
            out.append(dict(t="Vo", mode=mode, dated="soft"))
            out.append(dict(t="Fm", mode=mode, dated="mixed"))
        return out

    def scenario(self, ps, P, case):
        P.assume(P.int("H") >= 1)
        pb = ps.SchedulingProblem(name="pb", horizon=P.int("H"))
        cls, opt = decode(case["t"])
        assume_valid_task(P, cls, "t")
        t = make_task(ps, P, cls, "t", optional=opt, **dated_kw(case, 0))
        w = ps.Worker(name="w", productivity=P.int("prod"))
        if case["mode"] == "static":
            t.add_required_resource(w)
        elif case["mode"] == "delayed":
            P.assume(P.int("delay_in") >= 0)
            P.assume(P.int("early_out") >= 0)
            t.add_required_resource(w, delay_in=P.int("delay_in"), early_out=P.int("early_out"))
        else:
            t.add_required_resource(w, dynamic=True)
        solver = ps.SchedulingSolver(problem=pb)
        solver.initialize()
        return dict(pb=pb, t=t, w=w, solver=solver)

    def raises(self, P, case):
        return [("ValidationError", T(P.int("prod")) < 0)]

    def meaning(self, P, ctx, case):
        t, w = ctx["t"], ctx["w"]
        bs, be = busy(w, t)
        s = spec.sched(t)
        if case["mode"] == "static":
            return Implies(s, And(bs == t._start, be == t._end))
        if case["mode"] == "delayed":
            return Implies(s, And(bs == t._start + T(P.int("delay_in")), be == t._end - T(P.int("early_out"))))
        return Implies(s, And(t._start <= bs, bs <= be, be <= t._end))

    def clauses(self, P, ctx, case):
        pb, t, w, solver = ctx["pb"], ctx["t"], ctx["w"], ctx["solver"]
        A = asserted(solver)
        hz, H = pb._horizon, pb.horizon
        bs, be = busy(w, t)
        M = self.meaning(P, ctx, case)
        out = [
            Clause("state[worker recorded as required; busy interval registered]", z3.BoolVal(w in t._required_resources and t in w._busy_intervals), props=("C02",), kind="state"),
            Clause("sound[busy interval follows the task]", M, hyps=A, props=("C02",), kind="sound"),
        ]
        valid = [valid_placement(t, 1, hz, H), hz >= 0, hz <= T(H)]
        # completeness: any valid placement with the documented busy interval is admitted; an unscheduled
        # task keeps its worker free: witness busy interval = the task's own conventional point
        s = spec.sched(t)
        if case["mode"] == "dynamic":
            held = And(t._start <= bs, bs <= be, be <= t._end)
        elif case["mode"] == "delayed":
            held = And(bs == t._start + T(P.int("delay_in")), be == t._end - T(P.int("early_out")))
        else:
            held = And(bs == t._start, be == t._end)
        out.append(Clause("complete", And(*A), hyps=valid + [held], props=("C05", "C06"), kind="complete"))
        return out

    def sentinels(self, P, ctx, case):
        return [Clause("sentinel[false]", z3.BoolVal(False), hyps=asserted(ctx["solver"]), props=("C02",), kind="sound")]


@register
class AssignmentRejections(Contract):
    """add_required_resource: not a Resource -> TypeError; same resource twice -> ValueError"""

    target = "task.Task.add_required_resource"
    props = ("C18",)

    def cases(self, tier):
        return [dict(what=w) for w in ("not_a_resource", "twice", "twice_select", "ok_two_workers")]

    def scenario(self, ps, P, case):
        pb = ps.SchedulingProblem(name="pb", horizon=10)
        t = ps.FixedDurationTask(name="t", duration=2)
        w = ps.Worker(name="w")
        w2 = ps.Worker(name="w2")
        if case["what"] == "not_a_resource":
            t.add_required_resource(t)
        elif case["what"] == "twice":
            t.add_required_resource(w)
            t.add_required_resource(w)
        elif case["what"] == "twice_select":
            sw = ps.SelectWorkers(list_of_workers=[w, w2])
            t.add_required_resource(sw)
            t.add_required_resource(sw)
        else:
            t.add_required_resources([w, w2])
        return dict(t=t)

    def raises(self, P, case):
        return [
            ("TypeError", z3.BoolVal(case["what"] == "not_a_resource")),
            ("ValueError", z3.BoolVal(case["what"] == "twice")),
            # the same selection twice is rejected too (by the duplicate-assertion check)
            ("AssertionError", z3.BoolVal(case["what"] == "twice_select")),
        ]

    def clauses(self, P, ctx, case):
        return [Clause("state[accepted]", z3.BoolVal(True), props=("C18",), kind="state")]


@register
class WorkerExclusive(Contract):
    """the pairwise busy-interval loop of initialize: one worker, 2..3 tasks"""
    lifts = True  # element-wise meaning: holds for every list length once the loops are independent (contracts/loops.py)

    target = "solver.SchedulingSolver.initialize"
    inlines = ("task.Task.add_required_resource", "resource.Resource.get_busy_intervals")
    props = ("C02", "C05")
    bounded = "one worker with 2..3 tasks (quick) / 2..4 (thorough); all integers symbolic"

    def cases(self, tier):
        out = [dict(ts=(a, b)) for a in CODES for b in CODES]
        out += [dict(ts=("Fm", "Vo", "Zm")), dict(ts=("Fm", "Fm", "Fm")), dict(ts=("Vm", "Fo", "Vm"))]
        # the rule is about every pair of tasks on the worker, whatever else the tasks declare: release dates,
        # due dates that are deadlines ("hard") or not ("soft")
        for timing in (("soft", "soft"), ("hard", "soft"), ("soft", "hard"), ("hard", "hard")):
            out.append(dict(ts=("Fm", "Fm"), timing=timing))
        out.append(dict(ts=("Vm", "Fo"), timing=("soft", "soft")))
        if tier == "thorough":
            out += [dict(ts=("Fm", "Fm", "Vm", "Fo"))]
            out.append(dict(ts=("Fm", "Vo", "Fm"), timing=("soft", "hard", "soft")))
        return out

    def scenario(self, ps, P, case):
        P.assume(P.int("H") >= 1)
        pb = ps.SchedulingProblem(name="pb", horizon=P.int("H"))
        w = ps.Worker(name="w")
        tasks = []
        for i, code in enumerate(case["ts"]):
            cls, opt = decode(code)
            assume_valid_task(P, cls, f"t{i+1}")
            tm = case.get("timing")
            if tm:
                t = make_task(ps, P, cls, f"t{i+1}", optional=opt, release=True, due=True, deadline=(tm[i] == "hard"))
            else:
                t = make_task(ps, P, cls, f"t{i+1}", optional=opt)
            t.add_required_resource(w)
            tasks.append(t)
        solver = ps.SchedulingSolver(problem=pb)
        solver.initialize()
        return dict(pb=pb, w=w, tasks=tasks, solver=solver)

    def meaning(self, ctx):
        tasks, w = ctx["tasks"], ctx["w"]
        cs = []
        for a, b in itertools.combinations(tasks, 2):
            (s1, e1), (s2, e2) = busy(w, a), busy(w, b)
            cs.append(Implies(And(spec.sched(a), spec.sched(b)), Not(spec.strictly_overlap(s1, e1, s2, e2))))
        return And(*cs)

    def clauses(self, P, ctx, case):
        pb, tasks, w, solver = ctx["pb"], ctx["tasks"], ctx["w"], ctx["solver"]
        A = asserted(solver)
        hz, H = pb._horizon, pb.horizon
        M = self.meaning(ctx)
        out = [Clause("sound[no worker busy with two tasks at once]", M, hyps=A, props=("C02",), kind="sound", bounded=self.bounded)]
        valid = [valid_placement(t, i + 1, hz, H) for i, t in enumerate(tasks)] + [hz >= 0, hz <= T(H)]
        held = [And(busy(w, t)[0] == t._start, busy(w, t)[1] == t._end) for t in tasks]
        # completeness is claimed for tasks of positive length (a zero-length task inside another task's
        # span: the documentation does not say whether the worker is "busy with two tasks")
        disj = []
        for a, b in itertools.combinations(tasks, 2):
            disj.append(Implies(And(spec.sched(a), spec.sched(b)), spec.disjoint(a._start, a._end, b._start, b._end)))
        out.append(Clause("complete", And(*A), hyps=valid + held + disj, props=("C05",), kind="complete", bounded=self.bounded))
        return out

    def sentinels(self, P, ctx, case):
        tasks, w = ctx["tasks"], ctx["w"]
        (s1, e1), (s2, e2) = busy(w, tasks[0]), busy(w, tasks[1])
        return [Clause("sentinel[first task always first]", Implies(And(spec.sched(tasks[0]), spec.sched(tasks[1])), e1 <= s2), hyps=asserted(ctx["solver"]), props=("C02",), kind="sound")]


@register
class SelectWorkersContract(Contract):
    lifts = True  # element-wise meaning: holds for every list length once the loops are independent (contracts/loops.py)
    target = "resource.SelectWorkers.__init__"
    inlines = ("task.Task.add_required_resource", "problem.SchedulingProblem.get_unique_negative_integer", "problem.SchedulingProblem.add_resource_select_workers")
    props = ("C02", "C05", "C06", "C18")
    raises_props = ("C18",)
    bounded = "selection lists of 2..3 workers (quick) / 2..4 (thorough); nb_workers_to_select symbolic"

    def cases(self, tier):
        sizes = (2, 3) if tier == "quick" else (2, 3, 4)
        out = []
        for n in sizes:
            for kind in ("exact", "min", "max"):
                for t in ("Fm", "Fo", "Vm", "Zo"):
                    out.append(dict(n=n, kind=kind, t=t))
        out.append(dict(n=1, kind="exact", t="Fm"))
        # declared defaults: exactly one worker
        out.append(dict(n=3, kind="default", t="Fm", default_nb=True))
        out.append(dict(n=2, kind="min", t="Fo", default_nb=True))
        # the selection required as a dynamic resource: a selected worker is held for some non-negative span inside the
        # task's span (the whole span is one such span)
        out.append(dict(n=2, kind="exact", t="Fm", dynamic=True))
        out.append(dict(n=3, kind="min", t="Vo", dynamic=True))
        # tasks that declare a release date and a (soft / hard) due date
        out.append(dict(n=2, kind="exact", t="Fo", dated="soft"))
        out.append(dict(n=2, kind="min", t="Vm", dated="mixed"))
        return out

    def nb(self, P, case):
        return z3.IntVal(1) if case.get("default_nb") else T(P.int("nb"))

    def scenario(self, ps, P, case):
        P.assume(P.int("H") >= 1)
        pb = ps.SchedulingProblem(name="pb", horizon=P.int("H"))
        cls, opt = decode(case["t"])
        assume_valid_task(P, cls, "t")
        t = make_task(ps, P, cls, "t", optional=opt, **dated_kw(case, 0))
        workers = [ps.Worker(name=f"w{i+1}") for i in range(case["n"])]
        kw = {}
        if not case.get("default_nb"):
            kw["nb_workers_to_select"] = P.int("nb")
        if case["kind"] != "default":
            kw["kind"] = case["kind"]
        sw = ps.SelectWorkers(list_of_workers=workers, **kw)
        if case.get("dynamic"):
            t.add_required_resource(sw, dynamic=True)
        else:
            t.add_required_resource(sw)
        solver = ps.SchedulingSolver(problem=pb)
        solver.initialize()
        return dict(pb=pb, t=t, workers=workers, sw=sw, solver=solver)

    def raises(self, P, case):
        nb = self.nb(P, case)
        if case["n"] < 2:
            return [("ValidationError", z3.BoolVal(True))]
        return [("ValidationError", nb <= 0), ("ValueError", And(nb > 0, nb > case["n"]))]

    def clauses(self, P, ctx, case):
        pb, t, workers, sw, solver = ctx["pb"], ctx["t"], ctx["workers"], ctx["sw"], ctx["solver"]
        A = asserted(solver)
        hz, H = pb._horizon, pb.horizon
        s = spec.sched(t)
        sel = [sw._selection_dict[w] for w in workers]
        kind = "exact" if case["kind"] == "default" else case["kind"]
        cs = [spec.cmp_kind(kind, spec.count(sel), self.nb(P, case))]
        for w, b in zip(workers, sel):
            bs, be = busy(w, t)
            # a selected worker of a scheduled task is held for the task's whole span; a worker that is
            # not selected is not held: its interval is not a real one (negative, reported nowhere)
            if case.get("dynamic"):
                cs.append(Implies(And(b, s), And(bs >= t._start, be <= t._end, bs <= be)))
            else:
                cs.append(Implies(And(b, s), And(bs == t._start, be == t._end)))
            cs.append(Implies(Not(b), And(bs < 0, be < 0)))
        M = And(*cs)
        out = [
            Clause("state[one selection flag per listed worker, only listed workers required]", z3.BoolVal(set(sw._selection_dict) == set(workers) and set(t._required_resources) == set(workers)), props=("C02",), kind="state"),
            Clause("sound[selection count and held intervals]", M, hyps=A, props=("C02",), kind="sound", bounded=self.bounded),
        ]
        valid = [valid_placement(t, 1, hz, H), hz >= 0, hz <= T(H)]
        aux = []
        wit = []
        note = None
        try:
            for i, (w, b) in enumerate(zip(workers, sel)):
                bs, be = busy(w, t)
                # witness: selected -> the task's span; not selected -> the library's unique negative points -2, -3, ...
                up = z3.IntVal(spec.unselected_point(t, w))
                wit.append((bs, If(b, t._start, up)))
                wit.append((be, If(b, t._end, up)))
            goal = z3.substitute(And(*A), *wit)
        except ValueError as e:
            # the task's own assertions leave no (single) place for the interval of a worker that is not selected: no
            # witness -- the existential form is left to the solver
            note = str(e)
            intervals_ = [x for w in workers for x in busy(w, t)]
            goal = z3.Exists(intervals_, And(*A))
        out.append(
            Clause("complete", goal, hyps=valid + [spec.cmp_kind(kind, spec.count(sel), self.nb(P, case))], props=("C05", "C06"), kind="complete", bounded=self.bounded, note=note)
        )
        return out

    def sentinels(self, P, ctx, case):
        sel = [ctx["sw"]._selection_dict[w] for w in ctx["workers"]]
        return [Clause("sentinel[first worker always selected]", sel[0], hyps=asserted(ctx["solver"]), props=("C02",), kind="sound")]


@register
class CumulativeCapacity(Contract):
    target = "resource.CumulativeWorker.__init__"
    inlines = (
        "resource._distribute_p_over_n",
        "resource.CumulativeWorker.get_select_workers",
        "resource.SelectWorkers.__init__",
        "task.Task.add_required_resource",
        "solver.SchedulingSolver.initialize",
    )
    props = ("C02", "C18")
    raises_props = ("C18",)
    bounded = "cumulative size 2..3 with size+1 tasks (quick) / size up to 4 (thorough); all integers symbolic"

    def cases(self, tier):
        out = [dict(size=2, ts=("Fm", "Fm", "Fm")), dict(size=2, ts=("Fm", "Vo", "Fm")), dict(size=2, ts=("Vm", "Vm", "Fo")), dict(size=3, ts=("Fm", "Fm", "Fm", "Fm"))]
        if tier == "thorough":
            out.append(dict(size=3, ts=("Fm", "Vo", "Fm", "Vm")))
            out.append(dict(size=4, ts=("Fm",) * 5))
        out.append(dict(size=2, ts=("Fm", "Fm", "Fm"), default_productivity=True))
        out.append(dict(size=2, ts=("Fm", "Vo", "Fm"), dated="mixed"))
        return out

    def scenario(self, ps, P, case):
        P.assume(P.int("H") >= 1)
        pb = ps.SchedulingProblem(name="pb", horizon=P.int("H"))
        if case.get("default_productivity"):
            cw = ps.CumulativeWorker(name="cw", size=case["size"])  # declared default: productivity 1
        else:
            cw = ps.CumulativeWorker(name="cw", size=case["size"], productivity=P.int("prod"))
        tasks = []
        for i, code in enumerate(case["ts"]):
            cls, opt = decode(code)
            assume_valid_task(P, cls, f"t{i+1}")
            t = make_task(ps, P, cls, f"t{i+1}", optional=opt, **dated_kw(case, i))
            t.add_required_resource(cw)
            tasks.append(t)
        solver = ps.SchedulingSolver(problem=pb)
        solver.initialize()
        return dict(pb=pb, cw=cw, tasks=tasks, solver=solver)

    def raises(self, P, case):
        if case.get("default_productivity"):
            return []
        return [("ValidationError", T(P.int("prod")) <= 0)]

    def clauses(self, P, ctx, case):
        pb, cw, tasks, solver = ctx["pb"], ctx["cw"], ctx["tasks"], ctx["solver"]
        A = asserted(solver)
        n = case["size"]
        units = cw._cumulative_workers
        declared = z3.IntVal(1) if case.get("default_productivity") else T(P.int("prod"))
        out = [
            Clause(
                "state[size unit workers; productivities sum to the declared one]",
                And(z3.BoolVal(len(units) == n), z3.Sum([T(u.productivity) for u in units]) == declared, *[T(u.productivity) >= 0 for u in units]),
                props=("C02",),
                kind="state",
            )
        ]
        # capacity: no instant is shared by more than `size` scheduled tasks of positive length
        cs = []
        for S in itertools.combinations(tasks, n + 1):
            allpos = And(*[And(spec.sched(t), t._end > t._start) for t in S])
            share = And(*[a._start < b._end for a in S for b in S if a is not b])
            cs.append(Implies(allpos, Not(share)))
        out.append(Clause("sound[at most size tasks at any instant]", And(*cs), hyps=A, props=("C02",), kind="sound", bounded=self.bounded))
        # every scheduled task holds at least one unit worker for its whole span
        hs = []
        for t in tasks:
            alts = []
            for u in units:
                bs, be = busy(u, t)
                alts.append(And(bs == t._start, be == t._end))
            hs.append(Implies(spec.sched(t), Or(*alts)))
        out.append(Clause("sound[each scheduled task holds a unit for its whole span]", And(*hs), hyps=A, props=("C02",), kind="sound", bounded=self.bounded))
        return out

    def sentinels(self, P, ctx, case):
        a, b = ctx["tasks"][0], ctx["tasks"][1]
        return [Clause("sentinel[two tasks never overlap]", Implies(And(spec.sched(a), spec.sched(b)), spec.disjoint(a._start, a._end, b._start, b._end)), hyps=asserted(ctx["solver"]), props=("C02",), kind="sound")]


@register
class CumulativeRejections(Contract):
    target = "resource.CumulativeWorker.__init__"
    props = ("C18",)

    def cases(self, tier):
        return [{}]

    def scenario(self, ps, P, case):
        pb = ps.SchedulingProblem(name="pb", horizon=10)
        # size is a structural parameter of the expansion loop: range(size) needs a concrete value, so
        # the boundary is explored on the values around it
        size = P.int("size")
        P.assume(size >= -1)
        P.assume(size <= 3)
        for v in (-1, 0, 1, 2, 3):
            if size == v:
                return dict(cw=ps.CumulativeWorker(name="cw", size=v))
        raise AssertionError("unreachable")

    def raises(self, P, case):
        return [("ValidationError", T(P.int("size")) <= 1)]

    def clauses(self, P, ctx, case):
        return [Clause("state[accepted]", z3.BoolVal(len(ctx["cw"]._cumulative_workers) >= 2), props=("C18",), kind="state")]


@register
class WorkAmount(Contract):
    """work-amount section of initialize"""
    lifts = True  # element-wise meaning: holds for every list length once the loops are independent (contracts/loops.py)

    target = "solver.SchedulingSolver.initialize"
    inlines = ("task.Task.add_required_resource",)
    props = ("C02", "C06")
    bounded = "1..2 workers per task; productivities, work amount and all integers symbolic"

    def cases(self, tier):
        out = []
        for t in ("Vm", "Vo", "Fm", "Fo"):
            for nw in (0, 1, 2):
                for mode in ("static", "select"):
                    if mode == "select" and nw != 2:
                        continue
                    out.append(dict(t=t, nw=nw, mode=mode))
        out.append(dict(t="Vm", nw=1, mode="static", default_productivity=True))
        out.append(dict(t="Fo", nw=2, mode="static", default_productivity=True))
        return out

    def scenario(self, ps, P, case):
        P.assume(P.int("H") >= 1)
        pb = ps.SchedulingProblem(name="pb", horizon=P.int("H"))
        cls, opt = decode(case["t"])
        assume_valid_task(P, cls, "t")
        P.assume(P.int("wa") >= 0)
        kw = dict(name="t", optional=opt, work_amount=P.int("wa"))
        if cls == "FixedDurationTask":
            kw["duration"] = P.int("t_dur")
        else:
            kw["min_duration"] = P.int("t_min")
        t = getattr(ps, cls)(**kw)
        workers = []
        for i in range(case["nw"]):
            if case.get("default_productivity"):
                workers.append(ps.Worker(name=f"w{i+1}"))  # declared default: productivity 1
                continue
            P.assume(P.int(f"prod{i+1}") >= 0)
            workers.append(ps.Worker(name=f"w{i+1}", productivity=P.int(f"prod{i+1}")))
        sw = None
        if case["mode"] == "select":
            sw = ps.SelectWorkers(list_of_workers=workers, nb_workers_to_select=1, kind="min")
            t.add_required_resource(sw)
        else:
            for w in workers:
                t.add_required_resource(w)
        solver = ps.SchedulingSolver(problem=pb)
        solver.initialize()
        return dict(pb=pb, t=t, workers=workers, sw=sw, solver=solver)

    def clauses(self, P, ctx, case):
        pb, t, workers, solver = ctx["pb"], ctx["t"], ctx["workers"], ctx["solver"]
        A = asserted(solver)
        hz, H = pb._horizon, pb.horizon
        s = spec.sched(t)
        wa = T(P.int("wa"))
        out = []
        if workers:
            prod = (lambda w: z3.IntVal(1)) if case.get("default_productivity") else (lambda w: T(w.productivity))
            total = z3.Sum([prod(w) * (busy(w, t)[1] - busy(w, t)[0]) for w in workers])
            if case["mode"] == "select":
                # only held (selected) workers contribute: the others have an empty interval
                sel = [ctx["sw"]._selection_dict[w] for w in workers]
                total = z3.Sum([If(b, T(w.productivity) * (t._end - t._start), 0) for w, b in zip(workers, sel)])
            out.append(Clause("sound[work amount reached]", Implies(And(s, wa > 0), total >= wa), hyps=A, props=("C02",), kind="sound", bounded=self.bounded))
        # C06: a task that is left out needs no work: whatever the work amount, leaving an optional task
        # out is admitted (witness: busy intervals at the task's / the selection's conventional points)
        if decode(case["t"])[1]:
            try:
                pp = z3.IntVal(spec.past_point(t))
                wit = [(t._start, pp), (t._end, pp)]
                if case["t"][0] == "V":
                    wit.append((t._duration, z3.IntVal(0)))
                for i, w in enumerate(workers):
                    bs, be = busy(w, t)
                    if case["mode"] == "select":
                        b = ctx["sw"]._selection_dict[w]
                        up = z3.IntVal(spec.unselected_point(t, w))
                        wit += [(bs, If(b, pp, up)), (be, If(b, pp, up))]
                    else:
                        wit += [(bs, pp), (be, pp)]
                goal = z3.substitute(And(*A), *wit)
            except ValueError:
                # no single conventional point: some placement of the left-out task and of its intervals must do
                goal = z3.Exists(spec.unscheduled_unknowns(t) + [x for w in workers for x in busy(w, t)], And(*A))
            hy = [Not(s), hz >= 0, hz <= T(H)]
            if case["mode"] == "select":
                hy.append(Or(*[ctx["sw"]._selection_dict[w] for w in workers]))
            out.append(
                Clause("complete[left out whatever the work amount]", goal, hyps=hy, props=("C06",), kind="complete", bounded=self.bounded, regions={"work_amount>0": wa > 0})
            )
        out.append(Clause("state[reached]", z3.BoolVal(True), props=("C02",), kind="state"))
        return out

    def sentinels(self, P, ctx, case):
        return [Clause("sentinel[false]", z3.BoolVal(False), hyps=asserted(ctx["solver"]), props=("C02",), kind="sound")]


@register
class SelectOverCumulative(Contract):
    """an alternative-worker selection whose list contains a cumulative worker (the field accepts it):
    capacity of the cumulative worker and consistency of the report (C02, C11), through the real solve()"""

    target = "resource.SelectWorkers.__init__"
    inlines = ("task.Task.add_required_resource", "solver.SchedulingSolver.build_solution", "solver.SchedulingSolver.solve")
    props = ("C02", "C11")
    diff = "eval"
    bounded = "cumulative worker of size 2 and one plain worker in the list, 3 tasks; all integers symbolic"

    def cases(self, tier):
        return [dict(n=3)]

    def scenario(self, ps, P, case):
        P.assume(P.int("H") >= 1)
        pb = ps.SchedulingProblem(name="pb", horizon=P.int("H"))
        cw = ps.CumulativeWorker(name="cw", size=2)
        w = ps.Worker(name="w")
        tasks, sels = [], []
        for i in range(case["n"]):
            P.assume(P.int(f"t{i+1}_dur") >= 1)
            t = ps.FixedDurationTask(name=f"t{i+1}", duration=P.int(f"t{i+1}_dur"))
            sw = ps.SelectWorkers(list_of_workers=[cw, w], nb_workers_to_select=1)
            t.add_required_resource(sw)
            tasks.append(t)
            sels.append(sw)
        P.apply_pins(ps)
        solver = ps.SchedulingSolver(problem=pb)
        sol = solver.solve()
        return dict(pb=pb, tasks=tasks, sol=sol, cw=cw, w=w)

    def clauses(self, P, ctx, case):
        sol = ctx["sol"]
        if sol is False or sol is None:
            return [Clause("state[no solution object without a sat answer]", z3.BoolVal(sol is False), props=("C02",), kind="state")]
        T_ = sol.tasks
        on_cw = [t for t in ctx["tasks"] if "cw" in T_[t.name].assigned_resources]
        cs = []
        # at most 2 tasks held by the cumulative worker share an instant
        for S in itertools.combinations(on_cw, 3):
            share = And(*[T(T_[a.name].start) < T(T_[b.name].end) for a in S for b in S if a is not b])
            cs.append(Not(share))
        out = [Clause("report[cumulative worker chosen through a selection: at most size tasks at any instant]", And(*cs) if cs else z3.BoolVal(True), props=("C02",), kind="sound", bounded=self.bounded, regions={"three tasks select the cumulative worker": z3.BoolVal(len(on_cw) >= 3)})]
        # the selection picks exactly one of the two listed resources -- as reported: a listed resource that is not
        # selected (the cumulative worker included: none of its units) does not hold the task
        counts = [len([r for r in T_[t.name].assigned_resources if r in ("cw", "w")]) for t in ctx["tasks"] if T_[t.name].scheduled]
        out.append(Clause("report[each task is held by exactly the one resource its selection picks]", z3.BoolVal(all(c == 1 for c in counts)), props=("C02",), kind="sound", bounded=self.bounded))
        mirrored = all(any(a[0] == t.name for a in sol.resources[rn].assignments) for t in ctx["tasks"] for rn in T_[t.name].assigned_resources if rn in sol.resources) and all(rn in sol.resources for t in ctx["tasks"] for rn in T_[t.name].assigned_resources)
        out.append(Clause("report[a task lists a resource exactly when the resource lists the task]", z3.BoolVal(bool(mirrored)), props=("C11",), kind="equals", bounded=self.bounded, regions={"a task selects the cumulative worker": z3.BoolVal(len(on_cw) >= 1)}))
        return out


def _select_over_cumulative_native_search(case, params, ob):
    """real library: three tasks all made to choose the cumulative worker (size 2) of their selection at the same
    time; a returned solution is a capacity violation"""
    import io, contextlib
    from psvc import runner

    ps = runner.native_ps()
    with contextlib.redirect_stdout(io.StringIO()):
        pb = ps.SchedulingProblem(name="pb", horizon=4)
        cw = ps.CumulativeWorker(name="cw", size=2)
        w = ps.Worker(name="w")
        for i in range(3):
            t = ps.FixedDurationTask(name=f"t{i+1}", duration=4)
            sw = ps.SelectWorkers(list_of_workers=[cw, w], nb_workers_to_select=1)
            t.add_required_resource(sw)
            ps.ConstraintFromExpression(expression=sw._selection_dict[cw])
        sol = ps.SchedulingSolver(problem=pb).solve()
    if not sol:
        return {"confirmed": False, "observation": {"solution": False}}
    rows = {n: (t.start, t.end, t.assigned_resources) for n, t in sol.tasks.items()}
    return {"confirmed": all("cw" in r[2] for r in rows.values()), "observation": {"tasks": rows, "resources": {n: r.assignments for n, r in sol.resources.items()}, "cumulative_size": 2}}


SelectOverCumulative.native_search = staticmethod(_select_over_cumulative_native_search)
