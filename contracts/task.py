"""Contracts on processscheduler/task.py: the three task classes (C01, C05, C06, C18)."""
import z3

from psvc.contract import Contract, Clause, register, T, And, Or, Not, Implies, If, asserted, assertions_of
from psvc import spec

TASK_CLASSES = ("FixedDurationTask", "ZeroDurationTask", "VariableDurationTask")


def make_task(ps, P, cls, name, optional=False, release=None, due=None, deadline=True, tag=None, vdt=("min",)):
    """a task of the given class with symbolic integer parameters (suffix tag)"""
    tag = tag or name
    kw = dict(name=name, optional=optional)
    if release is not None:
        kw["release_date"] = P.int(f"{tag}_release")
    if due is not None:
        kw["due_date"] = P.int(f"{tag}_due")
        if deadline != "default":  # "default": the flag is left out -- documented default: the due date is a deadline
            kw["due_date_is_deadline"] = deadline
    if cls == "FixedDurationTask":
        kw["duration"] = P.int(f"{tag}_dur")
    elif cls == "VariableDurationTask":
        if "min" in vdt:
            kw["min_duration"] = P.int(f"{tag}_min")
        if "max" in vdt:
            kw["max_duration"] = P.int(f"{tag}_max")
        n_allowed = [int(x[7:]) for x in vdt if x.startswith("allowed")]
        if n_allowed:
            kw["allowed_durations"] = [P.int(f"{tag}_allowed{i}") for i in range(n_allowed[0])]
    return getattr(ps, cls)(**kw)


def task_accept_condition(P, cls, tag, release, due, vdt):
    """pydantic-level rejection conditions listed by C18 for a task: non-positive fixed duration,
    negative minimum duration; (max_duration / allowed durations must be positive: PositiveInt)"""
    bad = []
    if cls == "FixedDurationTask":
        bad.append(T(P.int(f"{tag}_dur")) <= 0)
    if cls == "VariableDurationTask":
        if "min" in vdt:
            bad.append(T(P.int(f"{tag}_min")) < 0)
        if "max" in vdt:
            bad.append(T(P.int(f"{tag}_max")) <= 0)
        for x in vdt:
            if x.startswith("allowed"):
                for i in range(int(x[7:])):
                    bad.append(T(P.int(f"{tag}_allowed{i}")) <= 0)
    return bad


@register
class TaskTiming(Contract):
    """<TaskClass>.__init__ (with Task.__init__, Task.set_assertions, NamedUIDObject.append_z3_assertion,
    SchedulingProblem.__init__/add_task inlined) and the task loop of SchedulingSolver.initialize."""

    target = "task.Task.__init__"
    inlines = (
        "task.Task.set_assertions",
        "task.FixedDurationTask.__init__",
        "task.ZeroDurationTask.__init__",
        "task.VariableDurationTask.__init__",
        "base.NamedUIDObject.append_z3_assertion",
        "base.NamedUIDObject.__init__",
        "base.BaseModelWithJson.__init__",
        "problem.SchedulingProblem.__init__",
        "problem.SchedulingProblem.add_task",
        "solver.SchedulingSolver.initialize",
        "solver.SchedulingSolver.append_z3_assertion",
    )
    props = ("C01", "C05", "C06", "C18")
    raises_props = ("C18",)

    def cases(self, tier):
        out = []
        for cls in TASK_CLASSES:
            vdts = [("min",)] if cls != "VariableDurationTask" else [("min",), ("min", "max"), ("min", "max", "allowed2"), ("allowed1",)]
            if tier == "thorough" and cls == "VariableDurationTask":
                vdts.append(("min", "max", "allowed3"))
            for vdt in vdts:
                for optional in (False, True):
                    for release in (None, "int"):
                        for due in (None, "deadline", "nodeadline", "default"):
                            for horizon in (None, "int"):
                                for nbefore in (0, 1):
                                    if nbefore == 1 and (release is None) != (due is None):
                                        continue  # keep the case count moderate
                                    if due == "default" and (nbefore or release or horizon is None or len(vdt) > 1):
                                        continue  # the declared default of the flag: one case per task class
                                    out.append(
                                        dict(cls=cls, vdt=vdt, optional=optional, release=release, due=due, horizon=horizon, nbefore=nbefore)
                                    )
        return out

    def scenario(self, ps, P, case):
        pb = ps.SchedulingProblem(name="pb", horizon=P.int("H")) if case["horizon"] else ps.SchedulingProblem(name="pb")
        before = [ps.ZeroDurationTask(name=f"before{i}") for i in range(case["nbefore"])]
        t = make_task(
            ps,
            P,
            case["cls"],
            "t",
            optional=case["optional"],
            release=case["release"],
            due=case["due"],
            deadline=("default" if case["due"] == "default" else case["due"] != "nodeadline"),
            vdt=case["vdt"],
        )
        solver = ps.SchedulingSolver(problem=pb)
        solver.initialize()
        return dict(pb=pb, t=t, solver=solver, before=before)

    def raises(self, P, case):
        bad = task_accept_condition(P, case["cls"], "t", case["release"], case["due"], case["vdt"])
        if case["horizon"]:
            bad.append(T(P.int("H")) <= 0)
        return [("ValidationError", Or(*bad))]

    def clauses(self, P, ctx, case):
        pb, t, solver = ctx["pb"], ctx["t"], ctx["solver"]
        A = asserted(solver)
        s = spec.sched(t)
        hz = pb._horizon
        H = pb.horizon
        timing = spec.task_timing(t, hz, H, deadline=(case["due"] in ("deadline", "default")) if case["due"] else None)
        k = case["nbefore"] + 1
        out = []
        # --- state: the scheduled flag is an unknown exactly for optional tasks
        is_var = isinstance(t._scheduled, z3.BoolRef) and not z3.is_true(T(t._scheduled))
        out.append(
            Clause(
                "state[scheduled flag is an unknown iff optional]",
                z3.BoolVal(is_var == bool(case["optional"])),
                props=("C01", "C06"),
                kind="state",
            )
        )
        out.append(
            Clause("state[task registered, task_number = position]", z3.BoolVal(pb.tasks.get("t") is t and t._task_number == k), props=("C01",), kind="state")
        )
        # --- documented defaults of what is not declared (the meanings below read them from the task object)
        dflt = []
        if case["cls"] == "ZeroDurationTask":
            dflt.append(T(t.duration) == 0)
        if case["cls"] == "VariableDurationTask":
            if "min" not in case["vdt"]:
                dflt.append(T(t.min_duration) == 0)
            if "max" not in case["vdt"]:
                dflt.append(z3.BoolVal(t.max_duration is None))
            if not any(x.startswith("allowed") for x in case["vdt"]):
                dflt.append(z3.BoolVal(t.allowed_durations is None))
        if case["release"] is None:
            dflt.append(z3.BoolVal(t.release_date is None))
        if case["due"] is None:
            dflt.append(z3.BoolVal(t.due_date is None))
        dflt.append(T(t.work_amount) == 0)
        out.append(Clause("state[what is not declared has its documented default: no minimum, no maximum, no dates, no work amount]", And(*dflt), props=("C01", "C05"), kind="state"))
        # --- C01 soundness: every model of what initialize() asserts gives a scheduled task its timing
        out.append(Clause("sound[timing]", Implies(s, timing), hyps=A, props=("C01",), kind="sound"))
        # --- C05/C06 completeness: every documented placement of a scheduled task is admitted ...
        dom = []
        if t.release_date is not None:
            dom.append(T(t.release_date) >= 0)
        if t.due_date is not None:
            dom.append(T(t.due_date) >= 0)
        others = [spec.task_timing(b, hz, H) for b in ctx["before"]]
        out.append(
            Clause("complete[scheduled]", And(*A), hyps=[s, timing] + dom + others, props=("C05", "C06"), kind="complete")
        )
        # ... and an optional task can always be left out (witness: the library's own convention
        # start = end = -task_number, duration 0), whatever its release date / due date
        if case["optional"]:
            pp = spec.past_point(t)
            wit = [(t._start, z3.IntVal(pp)), (t._end, z3.IntVal(pp))]
            if case["cls"] == "VariableDurationTask":
                wit.append((t._duration, z3.IntVal(0)))
            goal = z3.substitute(And(*A), *wit)
            hyps = [Not(s), hz >= 0] + ([hz <= T(H)] if H is not None else []) + dom + others
            regions = {}
            if t.release_date is not None:
                regions["release_date>0"] = T(t.release_date) > 0
            out.append(
                Clause("complete[left out]", goal, hyps=hyps, props=("C05", "C06"), kind="complete", regions=regions)
            )
        return out

    def sentinels(self, P, ctx, case):
        pb, t, solver = ctx["pb"], ctx["t"], ctx["solver"]
        A = asserted(solver)
        # wrong on purpose: a scheduled task would end strictly before the horizon
        return [Clause("sentinel[end < horizon]", Implies(spec.sched(t), t._end < pb._horizon), hyps=A, props=("C01",), kind="sound")]
