"""Contracts on processscheduler/task.py: the three task classes (C01, C05, C06, C18)."""
import z3

from psvc.contract import Contract, Clause, register, T, And, Or, Not, Implies, If, asserted, assertions_of
from psvc import spec

TASK_CLASSES = ("FixedDurationTask", "ZeroDurationTask", "VariableDurationTask")


def make_task(ps, P, cls, name, optional=False, release=None, due=None, deadline=True, tag=None, vdt=("min",)):
    """a task of the given class with symbolic integer parameters (suffix tag)"""
    tag = tag or name
    kw = dict(name=name, optional=optional)
    if release is not None:
        kw["release_date"] = P.int(f"{tag}_release")
    if due is not None:
        kw["due_date"] = P.int(f"{tag}_due")
        if deadline != "default":  # "default": the flag is left out -- documented default: the due date is a deadline
            kw["due_date_is_deadline"] = deadline
    if cls == "FixedDurationTask":
        kw["duration"] = P.int(f"{tag}_dur")
    elif cls == "VariableDurationTask":
        if "min" in vdt:
            kw["min_duration"] = P.int(f"{tag}_min")
        if "max" in vdt:
            kw["max_duration"] = P.int(f"{tag}_max")
        n_allowed = [int(x[7:]) for x in vdt if x.startswith("allowed")]
        if n_allowed:
            kw["allowed_durations"] = [P.int(f"{tag}_allowed{i}") for i in range(n_allowed[0])]
    return getattr(ps, cls)(**kw)


def task_accept_condition(P, cls, tag, release, due, vdt):
    """pydantic-level rejection conditions listed by C18 for a task: non-positive fixed duration,
    negative minimum duration; (max_duration / allowed durations must be positive: PositiveInt)"""
    bad = []
    if cls == "FixedDurationTask":
        bad.append(T(P.int(f"{tag}_dur")) <= 0)
    if cls == "VariableDurationTask":
        if "min" in vdt:
            bad.append(T(P.int(f"{tag}_min")) < 0)
        if "max" in vdt:
            bad.append(T(P.int(f"{tag}_max")) <= 0)
        for x in vdt:
            if x.startswith("allowed"):
                for i in range(int(x[7:])):
                    bad.append(T(P.int(f"{tag}_allowed{i}")) <= 0)
    return bad


@register
class TaskTiming(Contract):
    """<TaskClass>.__init__ (with Task.__init__, Task.set_assertions, NamedUIDObject.append_z3_assertion,
    SchedulingProblem.__init__/add_task inlined) and the task loop of SchedulingSolver.initialize."""

    target = "task.Task.__init__"
    inlines = (
        "task.Task.set_assertions",
        "task.FixedDurationTask.__init__",
        "task.ZeroDurationTask.__init__",
        "task.VariableDurationTask.__init__",
        "base.NamedUIDObject.append_z3_assertion",
        "base.NamedUIDObject.__init__",
        "base.BaseModelWithJson.__init__",
        "problem.SchedulingProblem.__init__",
        "problem.SchedulingProblem.add_task",
        "solver.SchedulingSolver.initialize",
        "solver.SchedulingSolver.append_z3_assertion",
    )
    props = ("C01", "C05", "C06", "C18")
    raises_props = ("C18",)

    def cases(self, tier):
        out = []
        for cls in TASK_CLASSES:
            vdts = [("min",)] if cls != "VariableDurationTask" else [("min",), ("min", "max"), ("min", "max", "allowed2"), ("allowed1",)]
            if tier == "thorough" and cls == "VariableDurationTask":
                vdts.append(("min", "max", "allowed3"))
            for vdt in vdts:
                for optional in (False, True):
                    for release in (None, "int"):
                        for due in (None, "deadline", "nodeadline", "default"):
                            for horizon in (None, "int"):
                                for nbefore in (0, 1):
                                    if nbefore == 1 and (release is None) != (due is None):
                                        continue  # keep the case count moderate
                                    if due == "default" and (nbefore or release or horizon is None or len(vdt) > 1):
                                        continue  # the declared default of the flag: one case per task class
                                    out.append(
                                        dict(cls=cls, vdt=vdt, optional=optional, release=release, due=due, horizon=horizon, nbefore=nbefore)
                                    )
        return out

    def scenario(self, ps, P, case):
        pb = ps.SchedulingProblem(name="pb", horizon=P.int("H")) if case["horizon"] else ps.SchedulingProblem(name="pb")
        before = [ps.ZeroDurationTask(name=f"before{i}") for i in range(case["nbefore"])]
        t = make_task(
            ps,
            P,
            case["cls"],
            "t",
            optional=case["optional"],
            release=case["release"],
            due=case["due"],
            deadline=("default" if case["due"] == "default" else case["due"] != "nodeadline"),
            vdt=case["vdt"],
        )
        solver = ps.SchedulingSolver(problem=pb)
        solver.initialize()
        return dict(pb=pb, t=t, solver=solver, before=before)

    def raises(self, P, case):
        bad = task_accept_condition(P, case["cls"], "t", case["release"], case["due"], case["vdt"])
        if case["horizon"]:
            bad.append(T(P.int("H")) <= 0)
        return [("ValidationError", Or(*bad))]

    def clauses(self, P, ctx, case):
        pb, t, solver = ctx["pb"], ctx["t"], ctx["solver"]
        A = asserted(solver)
        s = spec.sched(t)
        hz = pb._horizon
        H = pb.horizon
        timing = spec.task_timing(t, hz, H, deadline=(case["due"] in ("deadline", "default")) if case["due"] else None)
        k = case["nbefore"] + 1
        out = []
        # --- state: the scheduled flag is an unknown exactly for optional tasks
        is_var = isinstance(t._scheduled, z3.BoolRef) and not z3.is_true(T(t._scheduled))
        out.append(
            Clause(
                "state[scheduled flag is an unknown iff optional]",
                z3.BoolVal(is_var == bool(case["optional"])),
                props=("C01", "C06"),
                kind="state",
            )
        )
        out.append(
            Clause("state[task registered, task_number = position]", z3.BoolVal(pb.tasks.get("t") is t and t._task_number == k), props=("C01",), kind="state")
        )
        # --- documented defaults of what is not declared (the meanings below read them from the task object)
        dflt = []
        if case["cls"] == "ZeroDurationTask":
            dflt.append(T(t.duration) == 0)
        if case["cls"] == "VariableDurationTask":
            if "min" not in case["vdt"]:
                dflt.append(T(t.min_duration) == 0)
            if "max" not in case["vdt"]:
                dflt.append(z3.BoolVal(t.max_duration is None))
            if not any(x.startswith("allowed") for x in case["vdt"]):
                dflt.append(z3.BoolVal(t.allowed_durations is None))
        if case["release"] is None:
            dflt.append(z3.BoolVal(t.release_date is None))
        if case["due"] is None:
            dflt.append(z3.BoolVal(t.due_date is None))
        dflt.append(T(t.work_amount) == 0)
        out.append(Clause("state[what is not declared has its documented default: no minimum, no maximum, no dates, no work amount]", And(*dflt), props=("C01", "C05"), kind="state"))
        # --- C01 soundness: every model of what initialize() asserts gives a scheduled task its timing
        out.append(Clause("sound[timing]", Implies(s, timing), hyps=A, props=("C01",), kind="sound"))
        # --- C05/C06 completeness: every documented placement of a scheduled task is admitted ...
        dom = []
        if t.release_date is not None:
            dom.append(T(t.release_date) >= 0)
        if t.due_date is not None:
            dom.append(T(t.due_date) >= 0)
        others = [spec.task_timing(b, hz, H) for b in ctx["before"]]
        out.append(
            Clause("complete[scheduled]", And(*A), hyps=[s, timing] + dom + others, props=("C05", "C06"), kind="complete")
        )
        # ... and an optional task can always be left out (witness: the library's own convention
        # start = end = -task_number, duration 0), whatever its release date / due date
        if case["optional"]:
            pp = spec.parking(t)
            if pp is None:
                goal = z3.Exists(spec.unscheduled_unknowns(t), And(*A))  # some placement of the left-out task must do
            else:
                wit = [(t._start, z3.IntVal(pp)), (t._end, z3.IntVal(pp))]
                if case["cls"] == "VariableDurationTask":
                    wit.append((t._duration, z3.IntVal(0)))
                goal = z3.substitute(And(*A), *wit)
            hyps = [Not(s), hz >= 0] + ([hz <= T(H)] if H is not None else []) + dom + others
            regions = {}
            if t.release_date is not None:
                regions["release_date>0"] = T(t.release_date) > 0
            out.append(
                Clause("complete[left out]", goal, hyps=hyps, props=("C05", "C06"), kind="complete", regions=regions)
            )
        return out

    def sentinels(self, P, ctx, case):
        pb, t, solver = ctx["pb"], ctx["t"], ctx["solver"]
        A = asserted(solver)
        # wrong on purpose: a scheduled task would end strictly before the horizon
        return [Clause("sentinel[end < horizon]", Implies(spec.sched(t), t._end < pb._horizon), hyps=A, props=("C01",), kind="sound")]


# ------------------------------------------------------------------------------ C01 / C02 "whatever else the problem contains"
CONTEXTS = (
    "objective_incremental",
    "objective_optimize",
    "two_objectives",
    "indicator",
    "cost_indicator",
    "buffer",
    "task_constraint",
    "optional_rules",
    "resource_constraint",
    "selection",
    "cumulative",
    "fol",
    "no_horizon_objective",
    "debug",
    # declared constraints keep their meaning next to objectives / in debug mode / with an optimiser
    "task_constraint+objective_optimize",
    "resource_constraint+objective_incremental",
    "fol+debug",
    "task_constraint+buffer+indicator",
)


@register
class BasicRulesInContext(Contract):
    """initialize(): the basic rules (task timing C01, one task at a time per worker C02) are on the solver's stack
    whatever other elements the problem declares -- objectives (both optimisers), indicators, buffers, task and
    resource constraints, selections, cumulative workers, logical combinations, debug mode.  The other contracts
    prove the rules on problems that contain nothing else; this one proves that nothing else switches them off."""

    target = "solver.SchedulingSolver.initialize"
    inlines = ("solver.SchedulingSolver.create_objective", "solver.SchedulingSolver.append_z3_assertion", "task.Task.add_required_resource")
    props = ("C01", "C02", "C03", "C04", "C10")
    bounded = "3 tasks (fixed with release date and soft due date, optional variable-duration, zero-duration) on 1..2 workers, one or several extra element kinds per case; all integers symbolic"

    def cases(self, tier):
        return [dict(ctx=c) for c in CONTEXTS]

    def scenario(self, ps, P, case):
        c = case["ctx"]
        if c == "no_horizon_objective":
            pb = ps.SchedulingProblem(name="pb")
        else:
            P.assume(P.int("H") >= 1)
            pb = ps.SchedulingProblem(name="pb", horizon=P.int("H"))
        P.assume(P.int("a_dur") >= 1)
        P.assume(P.int("b_min") >= 0)
        a = ps.FixedDurationTask(name="a", duration=P.int("a_dur"), release_date=P.int("a_release"), due_date=P.int("a_due"), due_date_is_deadline=False)
        b = ps.VariableDurationTask(name="b", min_duration=P.int("b_min"), optional=True, due_date=P.int("b_due"))
        z = ps.ZeroDurationTask(name="z", due_date=P.int("z_due"), due_date_is_deadline=False)  # (tardiness indicators need a due date on every task)
        tasks = [a, b, z]
        w = ps.Worker(name="w")
        workers = [w]
        if c == "selection":
            v = ps.Worker(name="v")
            workers.append(v)
            a.add_required_resource(ps.SelectWorkers(list_of_workers=[w, v], nb_workers_to_select=1))
            b.add_required_resource(w)
        elif c == "cumulative":
            cw = ps.CumulativeWorker(name="cw", size=2)
            workers = list(cw._cumulative_workers)
            a.add_required_resource(cw)
            b.add_required_resource(cw)
        else:
            a.add_required_resource(w)
            b.add_required_resource(w)
        kw = {}
        parts = c.split("+")
        if "objective_incremental" in parts or c == "no_horizon_objective":
            ps.ObjectiveMinimizeMakespan()
        if "objective_optimize" in parts:
            ps.ObjectiveMinimizeFlowtime()
            kw["optimizer"] = "optimize"
        if "two_objectives" in parts:
            ps.ObjectiveMinimizeMakespan()
            ps.ObjectiveMinimizeFlowtime()
        if "indicator" in parts:
            ps.IndicatorTardiness()
            ps.IndicatorResourceUtilization(resource=w)
            ps.IndicatorNumberOfTardyTasks()
        if "cost_indicator" in parts:
            ps.IndicatorResourceCost(list_of_resources=[w])
            ps.IndicatorResourceIdle(resource=w)
        if "buffer" in parts:
            buf = ps.NonConcurrentBuffer(name="buf", initial_level=P.int("init"), lower_bound=0)
            P.assume(P.int("q") >= 1)
            ps.TaskUnloadBuffer(task=a, buffer=buf, quantity=P.int("q"))
            ps.TaskLoadBuffer(task=b, buffer=buf, quantity=P.int("q"))
        if "task_constraint" in parts:
            ps.TaskPrecedence(task_before=a, task_after=b, offset=0)
            ps.TasksStartSynced(task_1=a, task_2=z)
        if "optional_rules" in parts:
            ps.OptionalTaskConditionSchedule(task=b, condition=a._start > T(P.int("v")))
        if "resource_constraint" in parts:
            P.assume(P.int("lo") >= 0)
            ps.ResourceUnavailable(resource=w, list_of_time_intervals=[(P.int("lo"), P.int("lo") + 2)])
            ps.WorkLoad(resource=w, dict_time_intervals_and_bound={(0, 4): P.int("bound")})
        if "fol" in parts:
            ps.Or(list_of_constraints=[ps.TaskStartAt(task=a, value=P.int("v")), ps.Not(constraint=ps.TaskEndBefore(task=b, value=P.int("u")))])
        if "debug" in parts:
            kw["debug"] = True
            ps.TaskStartAfter(task=a, value=P.int("v2"))
        kw["verbosity"] = P.int("verbosity")  # any verbosity: what is printed must not change what is asserted
        solver = ps.SchedulingSolver(problem=pb, **kw)
        solver.initialize()
        return dict(pb=pb, tasks=tasks, workers=workers, solver=solver, w=w)

    def clauses(self, P, ctx, case):
        from contracts.resource import busy

        pb, tasks, solver = ctx["pb"], ctx["tasks"], ctx["solver"]
        A = asserted(solver)
        hz, H = pb._horizon, pb.horizon
        timing = And(*[Implies(spec.sched(t), spec.task_timing(t, hz, H)) for t in tasks])
        out = [Clause("sound[task timing holds in every model of the stack, whatever else is declared]", timing, hyps=A, props=("C01",), kind="sound", bounded=self.bounded)]
        ex = []
        for w in ctx["workers"]:
            held = [(t, busy(w, t)) for t in tasks if t in w._busy_intervals]
            for i in range(len(held)):
                for j in range(i + 1, len(held)):
                    (t1, (s1, e1)), (t2, (s2, e2)) = held[i], held[j]
                    ex.append(Implies(And(spec.sched(t1), spec.sched(t2)), Not(spec.strictly_overlap(s1, e1, s2, e2))))
        out.append(Clause("sound[no worker busy with two tasks at once, whatever else is declared]", And(*ex), hyps=A, props=("C02",), kind="sound", bounded=self.bounded))
        # the declared constraints keep their documented meaning next to the other elements
        parts = case["ctx"].split("+")
        a, b, z = tasks
        sa, sb = spec.sched(a), spec.sched(b)
        if "task_constraint" in parts:
            M = And(Implies(And(sa, sb), a._end <= b._start), a._start == z._start)
            out.append(Clause("sound[task constraints hold next to the other elements]", M, hyps=A, props=("C03",), kind="sound", bounded=self.bounded))
        if "resource_constraint" in parts:
            w = ctx["w"]
            lo = T(P.int("lo"))
            cs, tot = [], []
            for t in (a, b):
                bs, be = busy(w, t)
                cs.append(Implies(And(spec.sched(t), be > bs), Not(spec.strictly_overlap(bs, be, lo, lo + 2))))
                tot.append(If(spec.sched(t), spec.overlap_len(bs, be, 0, 4), 0))
            cs.append(z3.Sum(tot) <= T(P.int("bound")))  # WorkLoad: documented default kind "max"
            out.append(Clause("sound[resource constraints hold next to the other elements]", And(*cs), hyps=A, props=("C04",), kind="sound", bounded=self.bounded))
        if "fol" in parts:
            M = Or(a._start == T(P.int("v")), Not(Implies(sb, b._end <= T(P.int("u")))))
            out.append(Clause("sound[a logical combination holds next to the other elements]", M, hyps=A, props=("C10",), kind="sound", bounded=self.bounded))
        return out

    def sentinels(self, P, ctx, case):
        return [Clause("sentinel[false]", z3.BoolVal(False), hyps=asserted(ctx["solver"]), props=("C01", "C02", "C03", "C04", "C10"), kind="sound")]
