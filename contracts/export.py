"""Contracts on the exports (C16): SchedulingSolution.to_df / to_csv, export_solution_to_excel_file,
SchedulingSolver.export_to_smt2; bounded native layer for the shares that are the dependencies'
(JSON by pydantic, SMT-LIB text by z3).

The data-frame and the workbook are recording ghosts: "the library writes what it is told" is assumed,
what it is told is proved for every solution of the given shape (symbolic times)."""
import itertools
import json
import os
import tempfile

import z3

from psvc.contract import Contract, Clause, register, T, And, Or, Not, Implies, If, asserted
from psvc import spec, sym, ghost


def make_solution(ps, P, shape, **pb_kwargs):
    """a SchedulingSolution as build_solution produces them, with symbolic times.
    shape: list of (kind, scheduled) with kind F|Z ; one worker 'w' holding the scheduled non-zero tasks"""
    pb = ps.SchedulingProblem(name="pb", horizon=20, **pb_kwargs)
    sol_mod = ps.solution if hasattr(ps, "solution") else None
    TaskSolution, ResourceSolution, SchedulingSolution = sol_mod.TaskSolution, sol_mod.ResourceSolution, sol_mod.SchedulingSolution
    sol = SchedulingSolution(problem=pb)
    sol.horizon = P.int("hz")
    rs = ResourceSolution(name="w")
    last_end = 0
    for i, (kind, sched) in enumerate(shape):
        ts = TaskSolution(name=f"t{i+1}")
        if sched:
            s = P.int(f"s{i+1}")
            P.assume(s >= 0)
            if kind == "Z":
                e = s
            else:
                e = P.int(f"e{i+1}")
                P.assume(e > s)
            P.assume(e <= P.int("hz"))
            ts.start, ts.end, ts.duration = s, e, e - s
            ts.scheduled = True
            if kind != "Z":
                # a worker's assignments never overlap in a valid solution
                P.assume(s >= last_end)
                last_end = e
                ts.assigned_resources = ["w"]
                if kind == "D":
                    # a delayed assignment (delay_in=1, early_out=1): the worker is held for a part of the task only
                    P.assume(e - s >= 3)
                    rs.assignments.append((ts.name, s + 1, e - 1))
                else:
                    rs.assignments.append((ts.name, s, e))
        else:
            # an optional task left out: parked at a negative instant; build_solution still reports the declared
            # duration of a fixed-duration task
            d = P.int(f"d{i+1}")
            P.assume(d >= 1)
            ts.start, ts.end, ts.duration = -(i + 2), -(i + 2), (d if kind == "F" else 0)
            ts.optional = True
            ts.scheduled = False
        sol.add_task_solution(ts)
    sol.add_resource_solution(rs)
    sol.add_indicator_solution("ind", P.int("indval"))
    return pb, sol


SHAPES = ((("F", True),), (("F", True), ("Z", True)), (("F", False), ("F", True)), (("F", True), ("F", False), ("F", True)), (("D", True), ("F", True)))


@register
class ToDataFrame(Contract):
    target = "solution.SchedulingSolution.to_df"
    inlines = ("solution.SchedulingSolution.to_csv",)
    props = ("C16",)
    diff = "eval"
    bounded = "solutions with 1..3 tasks; times symbolic"

    def cases(self, tier):
        return [dict(shape=s) for s in SHAPES]

    def scenario(self, ps, P, case):
        pb, sol = make_solution(ps, P, case["shape"])
        df = sol.to_df()
        csv = sol.to_csv()
        return dict(sol=sol, df=df, csv=csv)

    def clauses(self, P, ctx, case):
        sol, df = ctx["sol"], ctx["df"]
        if P.symbolic:
            data = df.data
            col = lambda c: list(data[c])  # noqa: E731
        else:
            col = lambda c: list(df[c])  # noqa: E731
        tasks = list(sol.tasks.values())
        cs = [z3.BoolVal(col("Task name") == [t.name for t in tasks])]
        for c, f in (("Start", "start"), ("End", "end"), ("Duration", "duration")):
            vals = col(c)
            cs.append(z3.BoolVal(len(vals) == len(tasks)))
            for v, t in zip(vals, tasks):
                cs.append(T(int(v) if not sym.is_sym(v) else v) == T(getattr(t, f)))
        cs.append(z3.BoolVal([bool(x) for x in col("Scheduled")] == [bool(t.scheduled) for t in tasks]))
        cs.append(z3.BoolVal([list(x) for x in col("Allocated Resources")] == [list(t.assigned_resources) for t in tasks]))
        out = [Clause("returns[one row per task with its reported name, resources, start, end, duration, scheduled flag]", And(*cs), props=("C16",), kind="equals", bounded=self.bounded)]
        if P.symbolic:
            out.append(Clause("returns[csv is the data frame's]", z3.BoolVal(getattr(ctx["csv"], "df", None) is not None), props=("C16",), kind="equals"))
        return out


def cells_of(log, sheet):
    """[(row, first col, last col, text)] written on a ghost sheet"""
    out = []
    for name, meth, a, k in log:
        if name != f"sheet:{sheet}":
            continue
        if meth == "write" and len(a) >= 3 and not isinstance(a[0], str):
            out.append((a[0], a[1], a[1], a[2]))
        elif meth == "merge_range":
            # a block lives on one row: first_row must be last_row (else the row is reported as inconsistent)
            out.append((a[0] if a[0] == a[2] else ("rows", a[0], a[2]), a[1], a[3], a[4]))
    return out


@register
class ExcelExport(Contract):
    target = "excel_io.export_solution_to_excel_file"
    inlines = ("excel_io._get_color_from_string", "solution.SchedulingSolution.to_excel_file")
    props = ("C16",)
    diff = "eval"
    bounded = "solutions with 1..3 tasks on one resource; times symbolic"

    def cases(self, tier):
        return [dict(shape=s, colors=c) for s in SHAPES for c in (False, True)]

    def scenario(self, ps, P, case):
        pb, sol = make_solution(ps, P, case["shape"])
        if P.symbolic:
            sol.to_excel_file("ghost.xlsx", colors=case["colors"])
            wb = [e[1] for e in sym.current().events if e[0] == "workbook"][-1]
            return dict(sol=sol, log=list(wb._log), ok=True)
        # native world: (1) the real export with the real xlsxwriter must succeed ...
        d = tempfile.mkdtemp(prefix="psvc-xlsx-")
        fn = os.path.join(d, "out.xlsx")
        try:
            sol.to_excel_file(fn, colors=case["colors"])
            ok = os.path.isfile(fn)
        finally:
            if os.path.exists(fn):
                os.unlink(fn)
            os.rmdir(d)
        # ... (2) and the same real function, run by CPython with a recording stand-in for xlsxwriter,
        # tells which cells it writes
        import processscheduler.excel_io as xio

        real = xio.xlsxwriter
        xio.xlsxwriter = ghost.ghost_modules()["xlsxwriter"]
        try:
            n0 = len(sym.current().events)
            sol.to_excel_file("ghost.xlsx", colors=case["colors"])
            wb = [e[1] for e in sym.current().events[n0:] if e[0] == "workbook"][-1]
        finally:
            xio.xlsxwriter = real
            del sym.current().events[n0:]
        return dict(sol=sol, log=list(wb._log), ok=ok)

    def clauses(self, P, ctx, case):
        sol = ctx["sol"]
        log = ctx["log"]
        out = [Clause("state[the workbook is written]", z3.BoolVal(bool(ctx["ok"])), props=("C16",), kind="state")]
        # --- resource view: row i+1 = resource i; an assignment (n, s, e) of positive length fills the cells
        #     of columns s+1 .. e (one cell per period) with the task name
        res = cells_of(log, "GANTT Resource view")
        names = [(r, c1, c2, t) for (r, c1, c2, t) in res if isinstance(c1, int) and c1 == 0 and r != 0]
        draws = [(r, c1, c2, t) for (r, c1, c2, t) in res if not (isinstance(c1, int) and c1 == 0)]
        want = []
        for i, (rn, rs) in enumerate(sol.resources.items()):
            for (n, s, e) in rs.assignments:
                want.append((i + 1, s, e, n))
        cs = [z3.BoolVal([(r, t) for (r, _, _, t) in names] == [(i + 1, n) for i, n in enumerate(sol.resources.keys())]), z3.BoolVal(len(draws) == len(want))]
        for (r, c1, c2, t), (wr, s, e, n) in zip(draws, want):
            pos = T(e) - T(s) >= 1
            cs.append(And(z3.BoolVal(r == wr and t == n), Implies(pos, And(T(c1) == T(s) + 1, T(c2) == T(e)))))
        out.append(Clause("writes[resource view: one block per assignment, columns start+1 .. end of its resource's row]", And(*cs), props=("C16",), kind="equals", bounded=self.bounded))
        # --- task view
        tv = cells_of(log, "GANTT Task view")
        tnames = [(r, c1, c2, t) for (r, c1, c2, t) in tv if isinstance(c1, int) and c1 == 0 and r != 0]
        tdraws = [(r, c1, c2, t) for (r, c1, c2, t) in tv if not (isinstance(c1, int) and c1 == 0)]
        tasks = list(sol.tasks.values())
        cs = [z3.BoolVal([(r, t) for (r, _, _, t) in tnames] == [(i + 1, t.name) for i, t in enumerate(tasks)])]
        sched = [t for t in tasks if t.scheduled]
        rows = {t.name: i + 1 for i, t in enumerate(tasks)}
        # every scheduled task of positive length is drawn on its row from start+1 to end
        for t in sched:
            mine = [(r, c1, c2, txt) for (r, c1, c2, txt) in tdraws if r == rows[t.name]]
            cs.append(z3.BoolVal(len(mine) == 1 and mine[0][3] == ",".join(t.assigned_resources)))
            if mine:
                pos = T(t.end) - T(t.start) >= 1
                cs.append(Implies(pos, And(T(mine[0][1]) == T(t.start) + 1, T(mine[0][2]) == T(t.end))))
        out.append(Clause("writes[task view: one block per scheduled task, columns start+1 .. end of its row]", And(*cs), props=("C16",), kind="equals", bounded=self.bounded))
        # --- nothing but the names is ever written into the name column (or left of it)
        fr = []
        for (r, c1, c2, t) in draws + tdraws:
            fr.append(T(c1) >= 1)
        out.append(Clause("frame[the name column is written once per row and never overwritten]", And(*fr), props=("C16",), kind="frame", bounded=self.bounded))
        # --- xlsxwriter drops a merge of a single cell (warning "Can't merge single cell", nothing written):
        #     every merged range the export asks for spans two cells or more
        mr = []
        for name, meth, a, k in log:
            if meth == "merge_range" and name.startswith("sheet:"):
                mr.append(Or(z3.BoolVal(a[0] != a[2]), T(a[3]) > T(a[1])))
        out.append(Clause("writes[no single-cell merge: xlsxwriter would drop it]", And(*mr), props=("C16",), kind="state", bounded=self.bounded))
        # --- indicators
        iv = cells_of(log, "Indicators")
        body = [(r, c1, t) for (r, c1, c2, t) in iv if not (isinstance(r, int) and r == 0) and not isinstance(r, str)]
        wanti = []
        for i, (n, v) in enumerate(sol.indicators.items()):
            wanti += [(i + 1, 0, n), (i + 1, 1, v)]
        ok = len(body) == len(wanti)
        eqs = []
        for (r, c, t), (wr, wc, wt) in zip(body, wanti):
            ok = ok and r == wr and c == wc
            eqs.append(T(t) == T(wt) if not isinstance(wt, str) else z3.BoolVal(t == wt))
        out.append(Clause("writes[indicator sheet: name and value per row]", And(z3.BoolVal(ok), *eqs), props=("C16",), kind="equals"))
        out.append(Clause("state[workbook closed]", z3.BoolVal(any(m == "close" for (_, m, _, _) in log)), props=("C16",), kind="state"))
        return out


def same_system(text, A):
    """the exported assertions denote the constraint system A: every model of the text is a model of A, and every
    model of A extends to a model of the text (the text may name auxiliary Boolean literals of its own -- the tracking
    literals of the diagnosis mode -- that A does not mention)"""
    from psvc.ghost import bool_names_in

    mine = bool_names_in(A)
    aux = [z3.Bool(n) for n in sorted(bool_names_in(text) - mine)]
    T_, A_ = And(*text), And(*A)
    back = z3.Exists(aux, T_) if aux else T_
    return And(Implies(T_, A_), Implies(A_, back))


@register
class Smt2Export(Contract):
    target = "solver.SchedulingSolver.export_to_smt2"
    props = ("C16",)
    diff = "eval"

    def cases(self, tier):
        out = [dict(obj=o, optimizer=z, init=i) for o in (False, True) for z in ("incremental", "optimize") for i in (False, True)]
        # an assertion the user adds to an initialised solver is part of what the solver checks: exported too
        out += [dict(obj=False, optimizer="incremental", init=True, extra=True), dict(obj=True, optimizer="optimize", init=True, extra=True)]
        # the diagnosis mode is a configuration like the others: the export denotes what the solver checks
        out += [dict(obj=False, optimizer="incremental", init=False, debug=True), dict(obj=True, optimizer="optimize", init=True, debug=True)]
        return out

    def scenario(self, ps, P, case):
        from contracts.solver_api import small_problem

        pb, t1, t2 = small_problem(ps, P)
        ps.TaskPrecedence(task_before=t1, task_after=t2)
        if case["obj"]:
            ps.ObjectiveMinimizeMakespan()
        solver = ps.SchedulingSolver(problem=pb, optimizer=case["optimizer"], **({"debug": True} if case.get("debug") else {}))
        if case["init"]:
            solver.initialize()
        extra = []
        if case.get("extra"):
            base = list(asserted(solver))
            f = t1._start + T(P.int("gap")) <= t2._end
            solver.append_z3_assertion(f)
            extra = base + [f]
        self._expected = extra
        if P.symbolic:
            solver.export_to_smt2("ghost.smt2")
            f = [e[1] for e in sym.current().events if e[0] == "file"][-1]
            return dict(solver=solver, written=f.data, text=None, expected=extra)
        d = tempfile.mkdtemp(prefix="psvc-smt-")
        fn = os.path.join(d, "p.smt2")
        try:
            solver.export_to_smt2(fn)
            text = open(fn).read()
        finally:
            if os.path.exists(fn):
                os.unlink(fn)
            os.rmdir(d)
        return dict(solver=solver, written=None, text=text, expected=extra)

    def clauses(self, P, ctx, case):
        solver = ctx["solver"]
        # what the solver checks: its stack -- and, when the user added an assertion to the initialised solver, the
        # stack as it was plus that assertion (whatever the solver does with it internally)
        A = ctx["expected"] if ctx.get("expected") else asserted(solver)
        if P.symbolic:
            w = ctx["written"]
            ok = len(w) == 1 and hasattr(w[0], "formulas")
            same = same_system(w[0].formulas, A) if ok else z3.BoolVal(False)
            return [Clause("writes[the SMT-LIB text denotes exactly the constraint system the solver checks]", And(z3.BoolVal(ok), same), props=("C16",), kind="equals")]
        # bounded native share: the text parses and denotes the same constraint system
        text = ctx["text"]
        try:
            parsed = list(z3.parse_smt2_string(text))
            err = None
        except Exception as e:  # noqa
            parsed, err = [], str(e)
        s = z3.Solver()
        s.add(z3.Not(same_system(parsed, A)))
        return [Clause("writes[the SMT-LIB text denotes exactly the constraint system the solver checks]", z3.BoolVal(err is None and s.check() == z3.unsat), props=("C16",), kind="equals", bounded="native grid: 8 configurations x sampled parameters", note=err)]


@register
class JsonRoundTrip(Contract):
    """bounded native layer: task and cost-function definitions survive a JSON round trip; a solution's
    JSON export carries the reported values (the JSON layer itself is pydantic's)"""

    target = "base.BaseModelWithJson.to_json"
    inlines = ("problem.SchedulingProblem.add_from_json",)
    props = ("C16",)
    native_only = True
    bounded = "native grid of task / function definitions and solved problems (not a proof: the JSON layer is pydantic's)"

    def cases(self, tier):
        out = []
        for cls, kw in (
            ("FixedDurationTask", dict(duration=3)),
            ("FixedDurationTask", dict(duration=1, optional=True, release_date=2, due_date=9, due_date_is_deadline=False, priority=4, work_amount=5)),
            ("ZeroDurationTask", dict()),
            ("ZeroDurationTask", dict(optional=True, release_date=1)),
            ("VariableDurationTask", dict()),
            ("VariableDurationTask", dict(min_duration=2, max_duration=7, allowed_durations=[2, 5, 7], optional=True)),
        ):
            out.append(dict(what="task", cls=cls, kw=tuple(sorted(kw.items(), key=str))))
        for cls, kw in (("ConstantFunction", dict(value=55)), ("LinearFunction", dict(slope=2, intercept=3)), ("PolynomialFunction", dict(coefficients=[1, 2, 3]))):
            out.append(dict(what="function", cls=cls, kw=tuple(sorted(kw.items(), key=str))))
        for n in (1, 2, 3):
            out.append(dict(what="solution", cls="SchedulingSolution", kw=(("n", n),)))
        # calendar times (a time step of 8 hours: offsets beyond one day; with and without an origin) and a buffer
        out.append(dict(what="solution", cls="SchedulingSolution", kw=(("cal", "delta"), ("n", 3))))
        out.append(dict(what="solution", cls="SchedulingSolution", kw=(("cal", "delta+start"), ("n", 3))))
        out.append(dict(what="solution", cls="SchedulingSolution", kw=(("buffer", True), ("n", 2))))
        return out

    def scenario(self, ps, P, case):
        kw = {k: (list(v) if isinstance(v, tuple) else v) for k, v in case["kw"]}
        pb = ps.SchedulingProblem(name="pb", horizon=30)
        if case["what"] == "task":
            obj = getattr(ps, case["cls"])(name="orig", **kw)
            js = obj.to_json()
            d = json.loads(js)
            d["name"] = "copy"
            back = pb.add_from_json(json.dumps(d))
            return dict(obj=obj, back=back, kw=kw, js=d)
        if case["what"] == "function":
            obj = getattr(ps, case["cls"])(**kw)
            js = obj.to_json()
            back = getattr(ps, case["cls"]).model_validate_json(js)
            return dict(obj=obj, back=back, kw=kw, js=json.loads(js))
        n = kw["n"]
        if kw.get("cal"):
            import datetime

            pb = ps.SchedulingProblem(name="pb", horizon=30, delta_time=datetime.timedelta(hours=8), **({"start_time": datetime.datetime(2024, 2, 27, 22, 0)} if kw["cal"] == "delta+start" else {}))
        w = ps.Worker(name="w")
        ts = []
        for i in range(n):
            t = ps.FixedDurationTask(name=f"t{i}", duration=i + 1, optional=(i == 1))
            t.add_required_resource(w)
            ts.append(t)
        if kw.get("cal"):
            ps.TaskStartAt(task=ts[-1], value=4)  # more than a day after the origin
        if kw.get("buffer"):
            b = ps.NonConcurrentBuffer(name="b", initial_level=5)
            ps.TaskUnloadBuffer(task=ts[0], buffer=b, quantity=2)
            ps.TaskLoadBuffer(task=ts[0], buffer=b, quantity=3)
        ps.IndicatorResourceUtilization(resource=w)
        import io, contextlib

        with contextlib.redirect_stdout(io.StringIO()):
            sol = ps.SchedulingSolver(problem=pb).solve()
        return dict(sol=sol, js=json.loads(sol.to_json()))

    def clauses(self, P, ctx, case):
        if case["what"] in ("task", "function"):
            obj, back, kw = ctx["obj"], ctx["back"], ctx["kw"]
            same = all(getattr(back, k) == getattr(obj, k) for k in kw) and type(back) is type(obj)
            out = [Clause("native[definition survives the JSON round trip]", z3.BoolVal(bool(same)), props=("C16",), kind="equals", bounded=self.bounded)]
            if case["what"] == "function":
                out.append(Clause("native[the function computes the same values after the round trip]", z3.BoolVal(all(back(x) == obj(x) for x in (0, 1, 7))), props=("C16",), kind="equals", bounded=self.bounded))
            return out
        sol, js = ctx["sol"], ctx["js"]
        ok = bool(sol) and js["horizon"] == sol.horizon and set(js["tasks"]) == set(sol.tasks)
        if ok:
            for n, t in sol.tasks.items():
                j = js["tasks"][n]
                ok = ok and (j["start"], j["end"], j["duration"], j["scheduled"], j["assigned_resources"]) == (t.start, t.end, t.duration, t.scheduled, t.assigned_resources)
            for n, r in sol.resources.items():
                ok = ok and [tuple(a) for a in js["resources"][n]["assignments"]] == [tuple(a) for a in r.assignments]
            ok = ok and js["indicators"] == sol.indicators
            for n, b in sol.buffers.items():
                ok = ok and js["buffers"][n]["level"] == list(b.level) and js["buffers"][n]["level_change_times"] == list(b.level_change_times)
            # calendar fields: what is exported reads back (with pydantic's own parsers) as the reported value
            import datetime
            from pydantic import TypeAdapter

            for n, t in sol.tasks.items():
                j = js["tasks"][n]
                for f in ("start_time", "end_time", "duration_time"):
                    v = getattr(t, f)
                    if v is None:
                        ok = ok and j.get(f) is None
                        continue
                    try:
                        back = TypeAdapter(type(v) if isinstance(v, (datetime.datetime, datetime.timedelta)) else object).validate_python(j[f])
                    except Exception:  # noqa
                        back = None
                    ok = ok and back == v
        return [Clause("native[the JSON export carries the reported values]", z3.BoolVal(bool(ok)), props=("C16",), kind="equals", bounded=self.bounded)]
