"""Loop contracts for the collection loops of the functions under contract: "iterations are independent"
(psvc/foreach.py states the rule and why it lifts element-wise obligations from the bounded shapes to
collections of every length).  Decided syntactically on the AST of the real source on every run.  A loop
that was independent and no longer is makes the lifted claims *undecided* (exit 2), never a violation:
the rule is sufficient, not necessary."""
import ast
import os

import z3

from psvc.contract import Contract, Clause, register
from psvc import foreach, loader

# function (relative to processscheduler) -> properties whose element-wise obligations iterate through it
LOOPS = {
    "solver.SchedulingSolver.initialize": ("C01", "C02", "C03", "C04", "C05", "C06", "C08", "C09", "C10"),
    "base.NamedUIDObject.append_z3_list_of_assertions": ("C08",),
    "task.Task.add_required_resource": ("C02",),
    "task.Task.add_required_resources": ("C02",),
    "task.Task.set_assertions": ("C01",),
    "resource.SelectWorkers.__init__": ("C02",),
    "task_constraint.TaskGroup.__init__": ("C03",),
    "task_constraint.OrderedTaskGroup.__init__": ("C03",),
    "task_constraint.ForceScheduleNOptionalTasks.__init__": ("C06",),
    "task_constraint.ScheduleNTasksInTimeIntervals.__init__": ("C03",),
    "constraint.ForceApplyNOptionalConstraints.__init__": ("C10",),
    "first_order_logic._constraints_to_list_of_assertions": ("C10",),
    "resource_constraint.WorkLoad.__init__": ("C04",),
    "resource_constraint.ResourceUnavailable.__init__": ("C04",),
    "resource_constraint.ResourcePeriodicallyUnavailable.__init__": ("C04",),
    "resource_constraint.ResourceInterrupted.__init__": ("C04",),
    "resource_constraint.ResourcePeriodicallyInterrupted.__init__": ("C04",),
    "resource_constraint.SameWorkers.__init__": ("C04",),
    "resource_constraint.DistinctWorkers.__init__": ("C04",),
    "indicator.IndicatorTardiness.__init__": ("C08",),
    "indicator.IndicatorEarliness.__init__": ("C08",),
    "indicator.IndicatorNumberOfTardyTasks.__init__": ("C08",),
    "indicator.IndicatorResourceCost.__init__": ("C08",),
    "objective.ObjectiveTasksStartEarliest.__init__": ("C08",),
    "objective.ObjectiveMinimizeFlowtime.__init__": ("C08",),
    "objective.ObjectivePriorities.__init__": ("C08",),
    "solver.SchedulingSolver.find_another_solution": ("C12",),
    "solver.SchedulingSolver.create_objective": ("C07",),
    "solver.SchedulingSolver.build_solution": ("C11",),
    "solution.SchedulingSolution.to_df": ("C16",),
    "excel_io.export_solution_to_excel_file": ("C16",),
    "plotter.render_gantt_matplotlib": ("C17",),
}


@register
class LoopIndependence(Contract):
    target = "solver.SchedulingSolver.initialize"
    inlines = tuple(k for k in LOOPS if k != "solver.SchedulingSolver.initialize")
    props = tuple(sorted({p for ps in LOOPS.values() for p in ps}))
    native_only = True
    bounded = ""  # not a bounded stand-in: a decidable syntactic loop obligation, for every collection length

    def cases(self, tier):
        return [dict(fn=f) for f in LOOPS]

    def scenario(self, ps, P, case):
        mod, _, qual = case["fn"].partition(".")
        path = os.path.join(loader.REPO, "processscheduler", mod + ".py")
        out = []
        found = True
        try:
            tree = ast.parse(open(path).read())
            for k, loop in foreach.loops_of_function(tree, qual):
                ok, reasons, relied = foreach.analyse_loop(loop)
                out.append((k, loop.lineno, ok, reasons, relied))
        except (OSError, StopIteration, SyntaxError):
            found = False  # the function was moved or renamed: nothing can be lifted through it
        return dict(loops=out, found=found)

    # order-dependent loops of the unchanged tree, per function (the de-duplicating loops of build_solution, the step
    # plot): nothing is claimed from them.  Counted, not numbered: a refactoring that adds, removes or reorders
    # loops does not invalidate the record.
    NOT_CLAIMED = {"plotter.render_gantt_matplotlib": 1, "solver.SchedulingSolver.build_solution": 2}

    def clauses(self, P, ctx, case):
        bad = [(k, line, reasons) for k, line, ok, reasons, relied in ctx["loops"] if not ok]
        allowed = self.NOT_CLAIMED.get(case["fn"], 0)
        good = ctx["found"] and len(bad) <= allowed
        note = "; ".join(f"line {line}: {', '.join(reasons)}" for k, line, reasons in bad) if bad else ("function not found" if not ctx["found"] else f"{len(ctx['loops'])} loops, all independent")
        cl = Clause("loops[iterations are independent: element-wise obligations hold for every collection length]", z3.BoolVal(good), props=LOOPS[case["fn"]], kind="invariant", note=note)
        # a loop that stops being independent is no violation and leaves nothing undecided: the element-wise
        # obligations of the property are then bounded stand-ins only (reported in the evidence), not lifted
        cl.soft = True
        return [cl]
