"""Contracts on first_order_logic.py and the optional-constraint machinery of constraint.py (C10, C18).

An operand is a raw z3 Boolean, a constraint with one assertion (TaskStartAt), a constraint with
several assertions (ResourceUnavailable over two intervals) or itself a connective (depth 2).  The
operand's own meaning is the conjunction of the assertions it holds *before* it is combined (its own
contract's postcondition); a connective must assert exactly the Boolean combination of those
meanings, and initialize() must not enforce an operand on its own.
"""
import itertools

import z3

from psvc.contract import Contract, Clause, register, T, And, Or, Not, Implies, If, asserted, assertions_of
from psvc import spec

# operand kinds: a raw expression, a constraint with one assertion, one with several, and connectives used as
# operands (nesting): a conjunction, a negation, a disjunction, an implication
OPERANDS = ("expr", "single", "multi", "nested", "neg", "disj", "imp")


def build_world(ps, P):
    P.assume(P.int("H") >= 1)
    pb = ps.SchedulingProblem(name="pb", horizon=P.int("H"))
    P.assume(P.int("d1") >= 1)
    P.assume(P.int("d2") >= 1)
    t1 = ps.FixedDurationTask(name="t1", duration=P.int("d1"))
    t2 = ps.FixedDurationTask(name="t2", duration=P.int("d2"))
    w = ps.Worker(name="w")
    t1.add_required_resource(w)
    return pb, t1, t2, w


def make_operand(ps, P, kind, idx, t1, t2, w):
    """returns (operand object, its own meaning as a z3 formula)"""
    v = P.int(f"v{idx}")
    if kind == "expr":
        e = (t1 if idx % 2 else t2)._start > T(v)
        return e, e
    if kind == "single":
        c = ps.TaskStartAt(task=(t2 if idx % 2 else t1), value=v)
        return c, And(*assertions_of(c))
    if kind == "multi":
        P.assume(v >= 0)
        c = ps.ResourceUnavailable(resource=w, list_of_time_intervals=[(v, v + 1), (v + 3, v + 5)])
        return c, And(*assertions_of(c))
    if kind == "nested":
        a = ps.TaskEndBefore(task=t1, value=v, kind="strict")
        b = t2._start >= T(v)
        ma = And(*assertions_of(a))
        c = ps.And(list_of_constraints=[a, b])
        return c, And(ma, b)
    if kind == "neg":
        a = ps.TaskStartAt(task=(t2 if idx % 2 else t1), value=v)
        ma = And(*assertions_of(a))
        return ps.Not(constraint=a), Not(ma)
    if kind == "disj":
        a = ps.TaskEndBefore(task=t1, value=v, kind="strict")
        b = t2._start >= T(v)
        ma = And(*assertions_of(a))
        return ps.Or(list_of_constraints=[a, b]), Or(ma, b)
    if kind == "imp":
        a = ps.TaskStartAfter(task=t2, value=v)
        ma = And(*assertions_of(a))
        cond = t1._start >= T(v)
        return ps.Implies(condition=cond, list_of_constraints=[a]), Implies(cond, ma)
    raise ValueError(kind)


class FolBase(Contract):
    props = ("C10",)
    arity = 2
    inlines = (
        "first_order_logic._get_assertions",
        "first_order_logic._constraints_to_list_of_assertions",
        "constraint.Constraint.__init__",
        "constraint.Constraint.set_z3_assertions",
        "constraint.Constraint.set_created_from_assertion",
        "solver.SchedulingSolver.initialize",
    )
    bounded = None

    def cases(self, tier):
        return [dict(ops=ops) for ops in itertools.product(OPERANDS, repeat=self.arity)]

    def scenario(self, ps, P, case):
        pb, t1, t2, w = build_world(ps, P)
        ops, means = [], []
        for i, k in enumerate(case["ops"]):
            o, m = make_operand(ps, P, k, i + 1, t1, t2, w)
            ops.append(o)
            means.append(m)
        c = self.build(ps, P, case, ops, t1, t2)
        solver = ps.SchedulingSolver(problem=pb)
        solver.initialize()
        return dict(pb=pb, t1=t1, t2=t2, w=w, ops=ops, means=means, c=c, solver=solver)

    def base_assertions(self, ctx):
        """what initialize() asserts for the tasks / worker / horizon, independently of any constraint"""
        pb, t1, t2, w = ctx["pb"], ctx["t1"], ctx["t2"], ctx["w"]
        out = []
        for t in (t1, t2):
            out += list(t.get_z3_assertions()) + [t._end <= pb._horizon]
        out += list(w.get_z3_assertions())
        out += list(pb.get_z3_assertions())
        return out

    def clauses(self, P, ctx, case):
        c = ctx["c"]
        M = self.combine(P, case, ctx["means"], ctx)
        own = And(*assertions_of(c))
        A = asserted(ctx["solver"])
        base = self.base_assertions(ctx)
        out = [
            Clause("equals[connective = combination of the operands' meanings]", own == M, props=("C10",), kind="equals"),
            Clause("frame[every constraint operand is flagged as used inside a combination]", z3.BoolVal(all(getattr(o, "_created_from_assertion", True) for o in ctx["ops"]) and c._created_from_assertion is False), props=("C10",), kind="frame"),
            # nothing but the combination is enforced: the asserted set is equivalent to base /\ combination
            Clause("sound[asserted set implies the combination]", M, hyps=A, props=("C10",), kind="sound"),
            Clause("complete[operands are not enforced on their own]", And(*A), hyps=base + [M], props=("C10",), kind="complete"),
        ]
        return out

    def sentinels(self, P, ctx, case):
        return [Clause("sentinel[first operand enforced alone]", ctx["means"][0], hyps=asserted(ctx["solver"]), props=("C10",), kind="sound")]


@register
class NotC(FolBase):
    target = "first_order_logic.Not.__init__"
    arity = 1

    def build(self, ps, P, case, ops, t1, t2):
        return ps.Not(constraint=ops[0])

    def combine(self, P, case, means, ctx):
        return Not(means[0])

    def sentinels(self, P, ctx, case):
        return [Clause("sentinel[false]", z3.BoolVal(False), hyps=asserted(ctx["solver"]), props=("C10",), kind="sound")]


@register
class AndC(FolBase):
    lifts = True  # element-wise meaning: holds for every list length once the loops are independent (contracts/loops.py)
    target = "first_order_logic.And.__init__"

    def build(self, ps, P, case, ops, t1, t2):
        return ps.And(list_of_constraints=ops)

    def combine(self, P, case, means, ctx):
        return And(*means)

    def sentinels(self, P, ctx, case):
        return [Clause("sentinel[false]", z3.BoolVal(False), hyps=asserted(ctx["solver"]), props=("C10",), kind="sound")]


@register
class OrC(FolBase):
    lifts = True  # element-wise meaning: holds for every list length once the loops are independent (contracts/loops.py)
    target = "first_order_logic.Or.__init__"

    def build(self, ps, P, case, ops, t1, t2):
        return ps.Or(list_of_constraints=ops)

    def combine(self, P, case, means, ctx):
        return Or(*means)


@register
class XorC(FolBase):
    target = "first_order_logic.Xor.__init__"

    def build(self, ps, P, case, ops, t1, t2):
        return ps.Xor(constraint_1=ops[0], constraint_2=ops[1])

    def combine(self, P, case, means, ctx):
        return z3.Xor(means[0], means[1])


@register
class ImpliesC(FolBase):
    lifts = True  # element-wise meaning: holds for every list length once the loops are independent (contracts/loops.py)
    target = "first_order_logic.Implies.__init__"

    def cond(self, P, t1, t2):
        return t1._start < t2._start

    def build(self, ps, P, case, ops, t1, t2):
        return ps.Implies(condition=self.cond(P, t1, t2), list_of_constraints=ops)

    def combine(self, P, case, means, ctx):
        return Implies(self.cond(P, ctx["t1"], ctx["t2"]), And(*means))


@register
class IfThenElseC(FolBase):
    lifts = True  # element-wise meaning: holds for every list length once the loops are independent (contracts/loops.py)
    target = "first_order_logic.IfThenElse.__init__"

    def cond(self, P, t1, t2):
        return t1._start < t2._start

    def build(self, ps, P, case, ops, t1, t2):
        return ps.IfThenElse(condition=self.cond(P, t1, t2), then_list_of_constraints=[ops[0]], else_list_of_constraints=[ops[1]])

    def combine(self, P, case, means, ctx):
        return If(self.cond(P, ctx["t1"], ctx["t2"]), means[0], means[1])


@register
class ConstraintFromExpressionC(Contract):
    target = "constraint.ConstraintFromExpression.__init__"
    props = ("C10",)

    def cases(self, tier):
        return [dict(optional=o) for o in (False, True)]

    def scenario(self, ps, P, case):
        pb, t1, t2, w = build_world(ps, P)
        e = t1._end + T(P.int("v")) <= t2._start
        c = ps.ConstraintFromExpression(expression=e, optional=case["optional"])
        solver = ps.SchedulingSolver(problem=pb)
        solver.initialize()
        return dict(pb=pb, c=c, e=e, solver=solver)

    def clauses(self, P, ctx, case):
        c, e = ctx["c"], ctx["e"]
        own = And(*assertions_of(c))
        want = Implies(c._applied, e) if case["optional"] else e
        return [
            Clause("equals[enforced as written]", own == want, props=("C10",), kind="equals"),
            Clause("sound[asserted]", want, hyps=asserted(ctx["solver"]), props=("C10",), kind="sound"),
        ]

    def sentinels(self, P, ctx, case):
        return [Clause("sentinel[false]", z3.BoolVal(False), hyps=asserted(ctx["solver"]), props=("C10",), kind="sound")]


OPTIONAL_CLASSES = (
    "TaskStartAt",
    "TaskEndBefore",
    "TaskPrecedence",
    "TasksDontOverlap",
    "TasksContiguous",
    "UnorderedTaskGroup",
    "ForceScheduleNOptionalTasks",
    "ResourceUnavailable",
    "WorkLoad",
    "ResourceTasksDistance",
    "SameWorkers",
    "Or",
    "Not",
    "IndicatorTarget",
    "IndicatorBounds",
)


def make_optional(ps, P, cls, t1, t2, w, optional):
    v = P.int("v")
    kw = dict(optional=optional)
    if cls == "TaskStartAt":
        return ps.TaskStartAt(task=t1, value=v, **kw)
    if cls == "TaskEndBefore":
        return ps.TaskEndBefore(task=t1, value=v, **kw)
    if cls == "TaskPrecedence":
        P.assume(v >= 0)
        return ps.TaskPrecedence(task_before=t1, task_after=t2, offset=v, **kw)
    if cls == "TasksDontOverlap":
        return ps.TasksDontOverlap(task_1=t1, task_2=t2, **kw)
    if cls == "TasksContiguous":
        return ps.TasksContiguous(list_of_tasks=[t1, t2], **kw)
    if cls == "UnorderedTaskGroup":
        P.assume(v >= 0)
        return ps.UnorderedTaskGroup(list_of_tasks=[t1, t2], time_interval=(v, v + 10), **kw)
    if cls == "ForceScheduleNOptionalTasks":
        o1 = ps.FixedDurationTask(name="o1", duration=1, optional=True)
        o2 = ps.FixedDurationTask(name="o2", duration=1, optional=True)
        return ps.ForceScheduleNOptionalTasks(list_of_optional_tasks=[o1, o2], nb_tasks_to_schedule=1, **kw)
    if cls == "ResourceUnavailable":
        P.assume(v >= 0)
        return ps.ResourceUnavailable(resource=w, list_of_time_intervals=[(v, v + 2), (v + 4, v + 5)], **kw)
    if cls == "WorkLoad":
        P.assume(v >= 0)
        return ps.WorkLoad(resource=w, dict_time_intervals_and_bound={(v, v + 4): 2}, **kw)
    if cls == "ResourceTasksDistance":
        t2.add_required_resource(w)
        P.assume(v >= 0)
        return ps.ResourceTasksDistance(resource=w, distance=v, mode="min", **kw)
    if cls == "SameWorkers":
        w2 = ps.Worker(name="w2")
        w3 = ps.Worker(name="w3")
        s1 = ps.SelectWorkers(list_of_workers=[w2, w3])
        s2 = ps.SelectWorkers(list_of_workers=[w2, w3])
        t1.add_required_resource(s1)
        t2.add_required_resource(s2)
        return ps.SameWorkers(select_workers_1=s1, select_workers_2=s2, **kw)
    if cls == "Or":
        return ps.Or(list_of_constraints=[t1._start > T(v), t2._start > T(v)], **kw)
    if cls == "Not":
        return ps.Not(constraint=t1._start > T(v), **kw)
    if cls == "IndicatorTarget":
        ind = ps.IndicatorFromMathExpression(name="ind", expression=t1._start + t2._start)
        return ps.IndicatorTarget(indicator=ind, value=v, **kw)
    if cls == "IndicatorBounds":
        ind = ps.IndicatorFromMathExpression(name="ind", expression=t1._start + t2._start)
        return ps.IndicatorBounds(indicator=ind, lower_bound=v, **kw)
    raise ValueError(cls)


@register
class OptionalConstraint(Contract):
    """Constraint.set_z3_assertions: an optional constraint asserts Implies(applied, phi), where phi is
    what the same constraint asserts when it is mandatory (two runs of the real constructor)."""

    target = "constraint.Constraint.set_z3_assertions"
    inlines = ("constraint.Constraint.__init__",)
    props = ("C10", "C05")

    def cases(self, tier):
        return [dict(cls=c) for c in OPTIONAL_CLASSES]

    def scenario(self, ps, P, case):
        # the mandatory twin, in a problem of its own ...
        pb0, a1, a2, w0 = build_world(ps, P)
        c0 = make_optional(ps, P, case["cls"], a1, a2, w0, False)
        phi = And(*assertions_of(c0))
        # ... then the optional one
        pb, t1, t2, w = build_world(ps, P)
        c = make_optional(ps, P, case["cls"], t1, t2, w, True)
        solver = ps.SchedulingSolver(problem=pb)
        solver.initialize()
        return dict(pb=pb, c=c, c0=c0, phi=phi, solver=solver)

    def clauses(self, P, ctx, case):
        from psvc.runner import equivalent_modulo_fresh

        c, phi = ctx["c"], ctx["phi"]
        own = assertions_of(c)
        applied = c._applied
        is_flag = isinstance(applied, z3.BoolRef)
        out = [Clause("state[an optional constraint has an applied flag]", z3.BoolVal(is_flag), props=("C10",), kind="state")]
        if not is_flag:
            return out
        # optional: each assertion is Implies(applied, x) and the x's together are the mandatory twin's
        # assertions (compared up to the names of fresh auxiliary unknowns)
        guarded = And(*own)
        stripped = z3.substitute(guarded, (applied, z3.BoolVal(True)))
        ok, why = equivalent_modulo_fresh([z3.simplify(stripped)], [z3.simplify(phi)])
        off = z3.simplify(z3.substitute(guarded, (applied, z3.BoolVal(False))))
        out.append(Clause("equals[applied => the constraint's own assertions]", z3.BoolVal(ok is True), props=("C10",), kind="equals", note=str(why)[:300]))
        # (also a completeness statement, C05: an optional constraint that is left unapplied loses no schedule)
        out.append(Clause("equals[not applied => nothing is enforced]", off, props=("C10", "C05"), kind="equals"))
        return out


@register
class ForceApplyN(Contract):
    lifts = True  # element-wise meaning: holds for every list length once the loops are independent (contracts/loops.py)
    target = "constraint.ForceApplyNOptionalConstraints.__init__"
    props = ("C10", "C18")
    raises_props = ("C18",)
    bounded = "2..3 optional constraints; the count n symbolic"

    def cases(self, tier):
        out = [dict(kind=k, opts=o) for k in ("exact", "min", "max") for o in ((True, True), (True, True, True), (True, False))]
        # declared defaults: one constraint, exactly
        return out + [dict(kind="exact", opts=(True, True), default_n=True), dict(kind="default", opts=(True, True, True))]

    def count(self, P, case):
        return z3.IntVal(1) if case.get("default_n") else T(P.int("n"))

    def scenario(self, ps, P, case):
        pb, t1, t2, w = build_world(ps, P)
        cs = [ps.TaskStartAt(task=t1 if i % 2 == 0 else t2, value=P.int(f"v{i}"), optional=o) for i, o in enumerate(case["opts"])]
        kw = {}
        if not case.get("default_n"):
            kw["nb_constraints_to_apply"] = P.int("n")
        if case["kind"] != "default":
            kw["kind"] = case["kind"]
        f = ps.ForceApplyNOptionalConstraints(list_of_optional_constraints=cs, **kw)
        solver = ps.SchedulingSolver(problem=pb)
        solver.initialize()
        return dict(pb=pb, cs=cs, f=f, solver=solver, t1=t1, t2=t2)

    def raises(self, P, case):
        n = self.count(P, case)
        return [("ValidationError", n <= 0), ("TypeError", And(n > 0, z3.BoolVal(not all(case["opts"]))))]

    def clauses(self, P, ctx, case):
        A = asserted(ctx["solver"])
        cs = ctx["cs"]
        applied = [c._applied for c in cs]
        kind = "exact" if case["kind"] == "default" else case["kind"]
        M = [spec.cmp_kind(kind, spec.count(applied), self.count(P, case))]
        for i, c in enumerate(cs):
            t = ctx["t1"] if i % 2 == 0 else ctx["t2"]
            M.append(Implies(c._applied, t._start == T(P.int(f"v{i}"))))
        pb, t1, t2, w = ctx["pb"], ctx["t1"], ctx["t2"], ctx["pb"].workers["w"]
        base = []
        for t in (t1, t2):
            base += list(t.get_z3_assertions()) + [t._end <= pb._horizon]
        base += list(w.get_z3_assertions()) + list(pb.get_z3_assertions())
        return [
            Clause("sound[count of applied constraints; applied ones hold]", And(*M), hyps=A, props=("C10",), kind="sound", bounded=self.bounded),
            Clause("complete[nothing but the count and the applied constraints is enforced]", And(*A), hyps=base + M, props=("C10",), kind="complete", bounded=self.bounded),
        ]

    def sentinels(self, P, ctx, case):
        return [Clause("sentinel[all applied]", And(*[c._applied for c in ctx["cs"]]), hyps=asserted(ctx["solver"]), props=("C10",), kind="sound")]
