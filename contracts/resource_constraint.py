"""Contracts on processscheduler/resource_constraint.py (C04, C05, C18).

Meanings (C04 statement, docs/resource_constraints.md, class docstrings); "held" busy interval = the
busy interval [bs, be) of a scheduled task on the worker (a selected worker for selections):

  ResourceUnavailable            no held busy interval of positive length meets a listed interval [lo, hi)
  ResourcePeriodicallyUnavailable  for every integer k, no held busy interval (clipped to the activity range
                                 [start, end)) meets [lo + offset + k*period, hi + offset + k*period)
  WorkLoad(kind)                 per interval I: cmp(kind)(sum over held busy intervals of |busy /\\ I|, bound)
  ResourceTasksDistance(mode)    between two held busy intervals that are consecutive in time order the gap
                                 (next start - previous end) is = / <= / >= distance (when time intervals are
                                 given: only for pairs whose gap lies inside one of them)
  ResourceNonDelay               consecutive held busy intervals are back to back (gap = 0)
  ResourceInterrupted            fixed-duration task: held busy interval meets no interruption;
                                 variable-duration task: starts and ends outside interruptions and
                                 duration - (total length of overlapped interruptions) within [min, max]
  SameWorkers / DistinctWorkers  the two selections pick the same set of workers / no common worker
"""
import itertools

import z3

from psvc.contract import Contract, Clause, register, T, And, Or, Not, Implies, If, asserted
from psvc import spec
from contracts.task import make_task
from contracts.task_constraint import dated_kw
from contracts.task_constraint import assume_valid_task, valid_placement, fresh_consts
from contracts.resource import busy, decode


class RCBase(Contract):
    props = ("C04", "C05", "C06", "C18")
    raises_props = ("C18",)
    task_sets = (("Fm",), ("Fo",), ("Vm",), ("Fm", "Vo"), ("Fm", "Fm"))
    worker_kinds = ("worker", "selected")
    inlines = (
        "constraint.Constraint.__init__",
        "constraint.Constraint.set_z3_assertions",
        "solver.SchedulingSolver.initialize",
        "task.Task.add_required_resource",
    )

    def extra_cases(self, tier):
        return [{}]

    thorough_task_sets = (("Fm", "Vm", "Fo"), ("Vo", "Vo"), ("Zm", "Fm"))

    def cases(self, tier):
        out = []
        for wk in self.worker_kinds:
            for ts in tuple(self.task_sets) + (tuple(self.thorough_task_sets) if tier == "thorough" else ()):
                for extra in self.extra_cases(tier):
                    out.append(dict(res=wk, ts=ts, **extra))
        # the same with release dates and due dates (soft / hard) on the tasks
        sets = list(dict.fromkeys([self.task_sets[0], self.task_sets[-1]]))
        for ts, dated in zip(sets, ("soft", "mixed")):
            for extra in self.extra_cases(tier):
                out.append(dict(res=self.worker_kinds[0], ts=ts, dated=dated, **extra))
        return out

    def make_resource(self, ps, P, case):
        if case["res"] in ("worker", "selected"):
            return ps.Worker(name="w")
        return ps.CumulativeWorker(name="w", size=2)

    def unit_workers(self, res):
        return [res] if type(res).__name__ == "Worker" else list(res._cumulative_workers)

    def require(self, ps, P, case, t, res, i):
        if case["res"] == "selected":
            # the constrained worker is not assigned directly: each task chooses between it and another one
            other = ps.Worker(name=f"other{i+1}")
            t.add_required_resource(ps.SelectWorkers(list_of_workers=[res, other], nb_workers_to_select=1))
        else:
            t.add_required_resource(res)

    def scenario(self, ps, P, case):
        P.assume(P.int("H") >= 1)
        pb = ps.SchedulingProblem(name="pb", horizon=P.int("H"))
        res = self.make_resource(ps, P, case)
        tasks = []
        for i, code in enumerate(case["ts"]):
            cls, opt = decode(code)
            vdt = ("min", "max") if (cls == "VariableDurationTask" and case.get("vmax")) else ("min",)
            assume_valid_task(P, cls, f"t{i+1}", vdt)
            if "max" in vdt:
                P.assume(P.int(f"t{i+1}_max") >= P.int(f"t{i+1}_min"))
            t = make_task(ps, P, cls, f"t{i+1}", optional=opt, vdt=vdt, **dated_kw(case, i))
            self.require(ps, P, case, t, res, i)
            tasks.append(t)
        c = self.build_constraint(ps, P, case, res, tasks)
        solver = ps.SchedulingSolver(problem=pb)
        solver.initialize()
        return dict(pb=pb, res=res, tasks=tasks, c=c, solver=solver, direct=case["res"] != "selected")

    def held(self, ctx):
        """[(task, unit worker, held condition, bs, be)]"""
        out = []
        for t in ctx["tasks"]:
            for u in self.unit_workers(ctx["res"]):
                bs, be = busy(u, t)
                # on a unit of a cumulative worker the interval is a real one only when non-negative
                # (likewise when the worker is chosen through a selection: not selected = parked in the past)
                direct = type(ctx["res"]).__name__ == "Worker" and ctx.get("direct", True)
                cond = spec.sched(t) if direct else And(spec.sched(t), bs >= 0)
                out.append((t, u, cond, bs, be))
        return out

    def clauses(self, P, ctx, case):
        A = asserted(ctx["solver"])
        pb, tasks = ctx["pb"], ctx["tasks"]
        hz, H = pb._horizon, pb.horizon
        M = self.meaning(P, ctx, case)
        out = [Clause("sound", M, hyps=A, props=("C04",), kind="sound", bounded=self.bounded, regions=self.sound_regions(P, ctx, case))]
        if self.complete_enabled(case):
            valid = [valid_placement(t, i + 1, hz, H) for i, t in enumerate(tasks)] + [hz >= 0, hz <= T(H)]
            # static assignment on a plain worker: busy interval = task span; tasks of one worker disjoint
            rest = []
            for t in tasks:
                bs, be = busy(ctx["res"], t)
                rest += [bs == t._start, be == t._end]
            for a, b in itertools.combinations(tasks, 2):
                rest.append(spec.disjoint(a._start, a._end, b._start, b._end))
            aux = fresh_consts(A, tasks, pb, extra_known=[x for t in tasks for x in busy(ctx["res"], t)])
            goal = z3.Exists(aux, And(*A)) if aux else And(*A)
            out.append(
                Clause("complete", goal, hyps=valid + rest + [M] + self.complete_hyps(P, ctx, case), props=("C05", "C06") if any(t.optional for t in tasks) else ("C05",), kind="complete", bounded=self.bounded, regions=self.complete_regions(P, ctx, case))
            )
        return out

    def complete_enabled(self, case):
        return case["res"] == "worker"

    def complete_hyps(self, P, ctx, case):
        return []

    def sound_regions(self, P, ctx, case):
        return None

    def complete_regions(self, P, ctx, case):
        return None

    def sentinels(self, P, ctx, case):
        return [Clause("sentinel[false]", z3.BoolVal(False), hyps=asserted(ctx["solver"]), props=("C04",), kind="sound")]


def decode_opt(t):
    return bool(t.optional)


def intervals(P, n, prefix="", nonneg=True, ordered=True, distinct=False):
    """n intervals with symbolic bounds; ordered: pairwise disjoint, in ascending order; otherwise in any order,
    overlapping or nested (distinct: no two of them equal -- they are the keys of a dict)"""
    ivs = [(P.int(f"{prefix}lo{i}"), P.int(f"{prefix}hi{i}")) for i in range(n)]
    for lo, hi in ivs:
        if nonneg:
            P.assume(lo >= 0)
        P.assume(lo < hi)
    if ordered:
        for (l1, h1), (l2, h2) in zip(ivs, ivs[1:]):
            P.assume(h1 <= l2)
    elif distinct:
        for i in range(n):
            for j in range(i + 1, n):
                P.assume(Or(T(ivs[i][0]) != T(ivs[j][0]), T(ivs[i][1]) != T(ivs[j][1])))
    return ivs


# ------------------------------------------------------------------------------ unavailability
@register
class ResourceUnavailable(RCBase):
    lifts = True  # element-wise meaning: holds for every list length once the loops are independent (contracts/loops.py)
    target = "resource_constraint.ResourceUnavailable.__init__"
    worker_kinds = ("worker", "cumulative", "selected")
    bounded = "1..2 tasks on the resource x 1..2 intervals (3 intervals in thorough); all integers symbolic"

    def extra_cases(self, tier):
        return [{"nint": n} for n in ((1, 2) if tier == "quick" else (1, 2, 3))]

    def build_constraint(self, ps, P, case, res, tasks):
        # any list of intervals: in any order, overlapping or nested (the same interval twice is rejected by the
        # library as a duplicated assertion: outside the precondition)
        return ps.ResourceUnavailable(resource=res, list_of_time_intervals=intervals(P, case["nint"], ordered=False, distinct=True))

    def meaning(self, P, ctx, case):
        cs = []
        for t, u, cond, bs, be in self.held(ctx):
            for lo, hi in intervals(P, case["nint"], ordered=False, distinct=True):
                cs.append(Implies(And(cond, be > bs), Not(spec.strictly_overlap(bs, be, lo, hi))))
        return And(*cs)

    def complete_hyps(self, P, ctx, case):
        # zero-length busy intervals strictly inside an unavailability: "does no work" is silent about them
        hs = []
        for t, u, cond, bs, be in self.held(ctx):
            for lo, hi in intervals(P, case["nint"], ordered=False, distinct=True):
                hs.append(Implies(And(cond, be == bs), Or(bs <= T(lo), bs >= T(hi))))
        return hs


@register
class ResourceUnassigned(Contract):
    """a resource constraint on a resource not yet assigned to any task is rejected (C18)"""

    target = "resource_constraint.ResourceUnavailable.__init__"
    props = ("C18",)

    KINDS = ("ResourceUnavailable", "WorkLoad", "ResourceTasksDistance", "ResourceInterrupted", "ResourcePeriodicallyUnavailable", "ResourcePeriodicallyInterrupted", "ResourceNonDelay")

    def cases(self, tier):
        return [dict(cls=k, assigned=a) for k in self.KINDS for a in (0, 2)]

    def scenario(self, ps, P, case):
        pb = ps.SchedulingProblem(name="pb", horizon=20)
        w = ps.Worker(name="w")
        for i in range(case["assigned"]):
            ps.FixedDurationTask(name=f"t{i}", duration=2).add_required_resource(w)
        k = case["cls"]
        if k == "ResourceUnavailable":
            c = ps.ResourceUnavailable(resource=w, list_of_time_intervals=[(1, 3)])
        elif k == "WorkLoad":
            c = ps.WorkLoad(resource=w, dict_time_intervals_and_bound={(0, 5): 2})
        elif k == "ResourceTasksDistance":
            c = ps.ResourceTasksDistance(resource=w, distance=2)
        elif k == "ResourceInterrupted":
            c = ps.ResourceInterrupted(resource=w, list_of_time_intervals=[(1, 3)])
        elif k == "ResourcePeriodicallyUnavailable":
            c = ps.ResourcePeriodicallyUnavailable(resource=w, list_of_time_intervals=[(1, 3)], period=5)
        elif k == "ResourcePeriodicallyInterrupted":
            c = ps.ResourcePeriodicallyInterrupted(resource=w, list_of_time_intervals=[(1, 3)], period=5)
        else:
            c = ps.ResourceNonDelay(resource=w)
        return dict(c=c)

    def raises(self, P, case):
        return [("AssertionError", z3.BoolVal(case["assigned"] == 0))]

    def clauses(self, P, ctx, case):
        return [Clause("state[accepted]", z3.BoolVal(True), props=("C18",), kind="state")]


@register
class CumulativePeriodic(Contract):
    """well-formed periodic constraints on a cumulative worker are accepted (C18)"""

    target = "resource_constraint.ResourcePeriodicallyUnavailable.__init__"
    props = ("C18",)

    def cases(self, tier):
        return [dict(cls=k) for k in ("ResourcePeriodicallyUnavailable", "ResourcePeriodicallyInterrupted", "ResourceUnavailable", "ResourceInterrupted", "WorkLoad")]

    def scenario(self, ps, P, case):
        pb = ps.SchedulingProblem(name="pb", horizon=20)
        cw = ps.CumulativeWorker(name="cw", size=2)
        t = ps.FixedDurationTask(name="t", duration=2)
        t.add_required_resource(cw)
        k = case["cls"]
        if k == "WorkLoad":
            c = ps.WorkLoad(resource=cw, dict_time_intervals_and_bound={(0, 5): 2})
        elif k in ("ResourceUnavailable", "ResourceInterrupted"):
            c = getattr(ps, k)(resource=cw, list_of_time_intervals=[(1, 3)])
        else:
            c = getattr(ps, k)(resource=cw, list_of_time_intervals=[(1, 3)], period=5)
        return dict(c=c)

    def clauses(self, P, ctx, case):
        return [Clause("state[accepted]", z3.BoolVal(True), props=("C18",), kind="state")]


def periodic_free(bs, be, lo, hi, period, offset):
    """[bs,be) of positive length meets no window [lo+offset+k*period, hi+offset+k*period), k in Z.
    Quantifier-free form, valid for 0 <= lo < hi <= period (lemma PeriodicLemma below)"""
    r = (bs - offset) % period
    ln = be - bs
    return Or(r + ln <= lo, And(r >= hi, r + ln <= lo + period))


@register
class PeriodicLemma(Contract):
    """spec-side lemma: the quantifier-free characterisation used in the periodic meanings is the
    forall-k statement (proved by z3 for each concrete period used in the cases)"""

    target = "resource_constraint.ResourcePeriodicallyUnavailable.__init__"
    props = ("C04",)

    def cases(self, tier):
        return [dict(period=p) for p in ((3, 5, 7) if tier == "quick" else (2, 3, 4, 5, 6, 7, 10))]

    def scenario(self, ps, P, case):
        return {}

    def clauses(self, P, ctx, case):
        p = case["period"]
        bs, be, lo, hi, off, k = z3.Ints("bs be lo hi off k")
        dom = [0 <= lo, lo < hi, hi <= p, be > bs]
        qf = periodic_free(bs, be, lo, hi, p, off)
        meets_k = And(bs < hi + off + k * p, lo + off + k * p < be)
        # (1) qf => no k meets ; (2) not qf => some k meets (witnesses: the window at or after the fold)
        q = (bs - off) / p  # floor division for p > 0
        k1 = q
        k2 = q + 1
        some = Or(z3.substitute(meets_k, (k, k1)), z3.substitute(meets_k, (k, k2)))
        return [
            Clause("lemma[qf form implies no window is met]", Implies(qf, Not(meets_k)), hyps=dom, props=("C04",), kind="lemma"),
            Clause("lemma[not qf form implies a window is met]", Implies(Not(qf), some), hyps=dom, props=("C04",), kind="lemma"),
        ]


@register
class ResourcePeriodicallyUnavailable(RCBase):
    lifts = True  # element-wise meaning: holds for every list length once the loops are independent (contracts/loops.py)
    target = "resource_constraint.ResourcePeriodicallyUnavailable.__init__"
    worker_kinds = ("worker", "cumulative", "selected")
    bounded = "period in {3,5,7} (quick) / {2..7,10} (thorough), one interval per period, 1..2 tasks; other integers symbolic"
    task_sets = (("Fm",), ("Fo",), ("Vm",), ("Fm", "Vo"))
    thorough_task_sets = ()

    def extra_cases(self, tier):
        periods = (3, 5, 7) if tier == "quick" else (2, 3, 4, 5, 6, 7, 10)
        return [dict(period=p, mask=m) for p in periods for m in ("none", "start", "end", "both")]

    def params(self, P, case):
        p = case["period"]
        lo, hi = P.int("lo"), P.int("hi")
        return lo, hi, p

    def build_constraint(self, ps, P, case, res, tasks):
        lo, hi, p = self.params(P, case)
        P.assume(lo >= 0)
        P.assume(lo < hi)
        P.assume(hi <= p)
        kw = dict(resource=res, list_of_time_intervals=[(lo, hi)], period=p, offset=P.int("offset"))
        if case["mask"] in ("start", "both"):
            P.assume(P.int("start") >= 0)
            kw["start"] = P.int("start")
        if case["mask"] in ("end", "both"):
            kw["end"] = P.int("end")
        if case["mask"] == "both":
            P.assume(P.int("start") < P.int("end"))
        return ps.ResourcePeriodicallyUnavailable(**kw)

    def active_clip(self, P, case, bs, be):
        s, e = bs, be
        if case["mask"] in ("start", "both"):
            s = spec.zmax(bs, P.int("start"))
        if case["mask"] in ("end", "both"):
            e = spec.zmin(be, P.int("end"))
        return s, e

    def meaning(self, P, ctx, case):
        lo, hi, p = self.params(P, case)
        cs = []
        for t, u, cond, bs, be in self.held(ctx):
            s, e = self.active_clip(P, case, bs, be)
            cs.append(Implies(And(cond, e > s), periodic_free(s, e, T(lo), T(hi), p, T(P.int("offset")))))
        return And(*cs)

    def sound_regions(self, P, ctx, case):
        # the known defect: a busy interval that starts after the window of its own period and runs into
        # the window of the next period
        lo, hi, p = self.params(P, case)
        rs = []
        for t, u, cond, bs, be in self.held(ctx):
            r = (bs - T(P.int("offset"))) % p
            rs.append(And(r >= T(hi), r + (be - bs) > T(lo) + p))
        return {"busy interval runs into the next period's window": Or(*rs)}

    def complete_enabled(self, case):
        # on a directly assigned plain worker, with and without an activity range
        return case["res"] == "worker"

    def complete_hyps(self, P, ctx, case):
        return [Implies(cond, be > bs) for t, u, cond, bs, be in self.held(ctx)]

    def clauses(self, P, ctx, case):
        if case["res"] != "worker":
            return super().clauses(P, ctx, case)
        return super().clauses(P, ctx, case) + left_out_clauses(self, P, ctx, case)


# ------------------------------------------------------------------------------ workload
@register
class WorkLoad(RCBase):
    lifts = True  # element-wise meaning: holds for every list length once the loops are independent (contracts/loops.py)
    target = "resource_constraint.WorkLoad.__init__"
    worker_kinds = ("worker", "cumulative", "selected")
    bounded = "1..2 tasks on the resource x 1..2 intervals; all integers symbolic"
    task_sets = (("Fm",), ("Vo",), ("Fm", "Vo"), ("Fm", "Fm"))

    def extra_cases(self, tier):
        # "default": the kind is not given -- declared default: a maximum
        return [dict(kind=k, nint=n) for k in ("exact", "max", "min") for n in (1, 2)] + [dict(kind="default", nint=1)]

    def build_constraint(self, ps, P, case, res, tasks):
        ivs = intervals(P, case["nint"], ordered=False, distinct=True)
        d = {iv: P.int(f"bound{i}") for i, iv in enumerate(ivs)}
        if case["kind"] == "default":
            return ps.WorkLoad(resource=res, dict_time_intervals_and_bound=d)
        return ps.WorkLoad(resource=res, dict_time_intervals_and_bound=d, kind=case["kind"])

    def meaning(self, P, ctx, case):
        cs = []
        for i, (lo, hi) in enumerate(intervals(P, case["nint"], ordered=False, distinct=True)):
            tot = z3.Sum([If(cond, spec.overlap_len(bs, be, lo, hi), 0) for t, u, cond, bs, be in self.held(ctx)])
            cs.append(spec.cmp_kind("max" if case["kind"] == "default" else case["kind"], tot, P.int(f"bound{i}")))
        return And(*cs)

    def complete_regions(self, P, ctx, case):
        rs = []
        for t, u, cond, bs, be in self.held(ctx):
            for lo, hi in intervals(P, case["nint"], ordered=False, distinct=True):
                rs.append(And(bs < T(lo), be > T(hi)))
        return {"a busy interval strictly contains a workload interval": Or(*rs)}


# ------------------------------------------------------------------------------ distances
class DistBase(RCBase):
    task_sets = (("Fm", "Fm"), ("Fm", "Vo"), ("Fo", "Fo"), ("Vm", "Fm"), ("Fm", "Fm", "Fm"), ("Fm", "Vo", "Fm"))
    bounded = "2..3 tasks on one worker; all integers symbolic"

    def gaps(self, ctx):
        """[(condition 'a then b are consecutive held busy intervals', gap)] over ordered pairs"""
        H = self.held(ctx)
        out = []
        for i, (ta, ua, ca, sa, ea) in enumerate(H):
            for j, (tb, ub, cb, sb, eb) in enumerate(H):
                if i == j:
                    continue
                between = [And(ck, sa < sk, sk < sb) for k, (tk, uk, ck, sk, ek) in enumerate(H) if k not in (i, j)]
                out.append((And(ca, cb, sa < sb, Not(Or(*between))), sb - ea, ea, sb))
        return out


@register
class ResourceTasksDistance(DistBase):
    target = "resource_constraint.ResourceTasksDistance.__init__"
    inlines = RCBase.inlines + ("util.sort_no_duplicates",)

    def extra_cases(self, tier):
        # "default": the mode is not given -- declared default: exactly the distance
        return [dict(mode=m, nint=n) for m in ("exact", "min", "max") for n in (0, 1)] + [dict(mode="default", nint=0)]

    def build_constraint(self, ps, P, case, res, tasks):
        P.assume(P.int("distance") >= 0)
        kw = dict(resource=res, distance=P.int("distance"))
        if case["mode"] != "default":
            kw["mode"] = case["mode"]
        if case["nint"]:
            kw["list_of_time_intervals"] = intervals(P, case["nint"], prefix="d", ordered=False)
        return ps.ResourceTasksDistance(**kw)

    def raises(self, P, case):
        return [("AssertionError", z3.BoolVal(len(case["ts"]) < 2))]

    def meaning(self, P, ctx, case):
        cs = []
        d = T(P.int("distance"))
        for cond, gap, prev_end, next_start in self.gaps(ctx):
            rel = {"exact": gap == d, "min": gap >= d, "max": gap <= d, "default": gap == d}[case["mode"]]
            if case["nint"]:
                inside = Or(*[And(T(lo) <= prev_end, next_start <= T(hi)) for lo, hi in intervals(P, case["nint"], prefix="d", ordered=False)])
                cs.append(Implies(And(cond, inside), rel))
            else:
                cs.append(Implies(cond, rel))
        # the statement concerns busy intervals of positive length
        pos = And(*[Implies(c, be > bs) for t, u, c, bs, be in self.held(ctx)])
        return Implies(pos, And(*cs))

    def complete_hyps(self, P, ctx, case):
        return [And(*[Implies(c, be > bs) for t, u, c, bs, be in self.held(ctx)])]


@register
class ResourceNonDelay(DistBase):
    target = "resource_constraint.ResourceNonDelay.__init__"
    inlines = RCBase.inlines + ("util.sort_no_duplicates",)

    def build_constraint(self, ps, P, case, res, tasks):
        return ps.ResourceNonDelay(resource=res)

    def meaning(self, P, ctx, case):
        cs = [Implies(cond, gap == 0) for cond, gap, pe, ns in self.gaps(ctx)]
        pos = And(*[Implies(c, be > bs) for t, u, c, bs, be in self.held(ctx)])
        return Implies(pos, And(*cs))

    def complete_hyps(self, P, ctx, case):
        return [And(*[Implies(c, be > bs) for t, u, c, bs, be in self.held(ctx)])]


# ------------------------------------------------------------------------------ interruptions
@register
class ResourceInterrupted(RCBase):
    lifts = True  # element-wise meaning: holds for every list length once the loops are independent (contracts/loops.py)
    target = "resource_constraint.ResourceInterrupted.__init__"
    worker_kinds = ("worker", "cumulative", "selected")
    bounded = "1..2 tasks x 1..2 interruptions; all integers symbolic"
    task_sets = (("Fm",), ("Fo",), ("Vm",), ("Vo",), ("Fm", "Vm"))

    def extra_cases(self, tier):
        return [dict(nint=n, vmax=v) for n in (1, 2) for v in (False, True)]

    def build_constraint(self, ps, P, case, res, tasks):
        return ps.ResourceInterrupted(resource=res, list_of_time_intervals=intervals(P, case["nint"]))

    def meaning(self, P, ctx, case):
        cs = []
        ivs = intervals(P, case["nint"])
        for t, u, cond, bs, be in self.held(ctx):
            if type(t).__name__ == "VariableDurationTask":
                outside = []
                tot = []
                for lo, hi in ivs:
                    lo, hi = T(lo), T(hi)
                    outside += [Or(bs <= lo, bs >= hi), Or(be <= lo, be >= hi)]
                    tot.append(If(spec.strictly_overlap(bs, be, lo, hi), hi - lo, 0))
                work = t._duration - z3.Sum(tot)
                rng = [work >= T(t.min_duration)]
                if t.max_duration is not None:
                    rng.append(work <= T(t.max_duration))
                cs.append(Implies(And(cond, be > bs), And(*outside, *rng)))
            else:
                for lo, hi in ivs:
                    cs.append(Implies(And(cond, be > bs), Not(spec.strictly_overlap(bs, be, lo, hi))))
        return And(*cs)

    def complete_hyps(self, P, ctx, case):
        hs = []
        for t, u, cond, bs, be in self.held(ctx):
            hs.append(Implies(cond, be > bs))
        return hs

    def complete_regions(self, P, ctx, case):
        rs = []
        ivs = intervals(P, case["nint"])
        for t, u, cond, bs, be in self.held(ctx):
            if type(t).__name__ == "VariableDurationTask" and t.max_duration is not None:
                rs.append(And(cond, Or(*[spec.strictly_overlap(bs, be, T(lo), T(hi)) for lo, hi in ivs]), t._duration > T(t.max_duration)))
        out = {}
        if rs:
            out["an interrupted task longer than its own max_duration"] = Or(*rs)
        left = [Not(spec.sched(t)) for t in ctx["tasks"] if type(t).__name__ == "VariableDurationTask" and decode_opt(t)]
        if left:
            out = {"an optional variable-duration task is left out": Or(*left)}
        return out or None


@register
class ResourcePeriodicallyInterrupted(RCBase):
    lifts = True  # element-wise meaning: holds for every list length once the loops are independent (contracts/loops.py)
    target = "resource_constraint.ResourcePeriodicallyInterrupted.__init__"
    bounded = "period in {4,6} (quick) / {3..7} (thorough), one interruption per period, one task; other integers symbolic"
    task_sets = (("Fm",), ("Fo",), ("Vm",), ("Vo",), ("Fm", "Fm"))
    thorough_task_sets = ()

    def extra_cases(self, tier):
        periods = (4, 6) if tier == "quick" else (3, 4, 5, 6, 7)
        return [dict(period=p, vmax=False, mask=m) for p in periods for m in ("none", "start", "end", "both")] + [dict(period=periods[0], vmax=True, mask="none")]

    def cases(self, tier):
        # with an activity range only the fixed-duration meaning (no overlap) is claimed; a maximum duration only
        # concerns variable-duration tasks
        out = [c for c in super().cases(tier) if c["mask"] == "none" or c["ts"][0][0] == "F"]
        return [c for c in out if not c["vmax"] or c["ts"][0][0] == "V"]

    def build_constraint(self, ps, P, case, res, tasks):
        lo, hi = P.int("lo"), P.int("hi")
        P.assume(lo >= 0)
        P.assume(lo < hi)
        P.assume(hi <= case["period"])
        kw = dict(resource=res, list_of_time_intervals=[(lo, hi)], period=case["period"], offset=P.int("offset"))
        if case["mask"] in ("start", "both"):
            P.assume(P.int("start") >= 0)
            kw["start"] = P.int("start")
        if case["mask"] in ("end", "both"):
            kw["end"] = P.int("end")
        if case["mask"] == "both":
            P.assume(P.int("start") < P.int("end"))
        return ps.ResourcePeriodicallyInterrupted(**kw)

    def meaning(self, P, ctx, case):
        lo, hi, p, off = T(P.int("lo")), T(P.int("hi")), case["period"], T(P.int("offset"))
        cs = []
        for t, u, cond, bs, be in self.held(ctx):
            if type(t).__name__ == "VariableDurationTask":
                # starts and ends outside the interruptions
                rs, re = (bs - off) % p, (be - off) % p
                cs.append(Implies(And(cond, be > bs), And(Or(rs <= lo, rs >= hi), Or(re <= lo, re >= hi))))
                # the work done (duration minus overlapped interruption time) reaches the minimum:
                # overlapped time = (hi - lo) * number of windows met; windows met by [bs, be) when both ends are
                # outside the windows: floor((be - off - lo - 1)/p) - floor((bs - off - lo - 1)/p)  (for be > bs)
                nmet = (be - off - lo - 1) / p - (bs - off - lo - 1) / p
                work = t._duration - (hi - lo) * nmet
                cs.append(Implies(And(cond, be > bs), work >= T(t.min_duration)))
                if t.max_duration is not None:
                    # ... and does not exceed the maximum
                    cs.append(Implies(And(cond, be > bs), work <= T(t.max_duration)))
            else:
                # the part of the busy interval inside the activity range [start, end) meets no window
                s_, e_ = bs, be
                if case["mask"] in ("start", "both"):
                    s_ = spec.zmax(bs, P.int("start"))
                if case["mask"] in ("end", "both"):
                    e_ = spec.zmin(be, P.int("end"))
                cs.append(Implies(And(cond, e_ > s_), periodic_free(s_, e_, lo, hi, p, off)))
        return And(*cs)

    def complete_enabled(self, case):
        # completeness (every schedule that respects the documented meaning is admitted): on a directly assigned
        # plain worker, for tasks of positive length (with an activity range the cases are fixed-duration tasks)
        return case["res"] == "worker"

    def complete_hyps(self, P, ctx, case):
        return [Implies(cond, be > bs) for t, u, cond, bs, be in self.held(ctx)]

    def clauses(self, P, ctx, case):
        return super().clauses(P, ctx, case) + left_out_clauses(self, P, ctx, case)


def left_out_clauses(self, P, ctx, case):
    if True:
        out = []
        # an optional task can be left out whatever the pattern (witness: its parking point)
        A = asserted(ctx["solver"])
        pb = ctx["pb"]
        hz, H = pb._horizon, pb.horizon
        for t in ctx["tasks"]:
            if t.optional and len(ctx["tasks"]) == 1:
                bs, be = busy(ctx["res"], t)
                if spec.parking(t) is None:
                    goal = z3.Exists(spec.unscheduled_unknowns(t) + [bs, be], And(*A))
                else:
                    pp = z3.IntVal(spec.past_point(t))
                    wit = [(t._start, pp), (t._end, pp), (bs, pp), (be, pp)]
                    if hasattr(t, "_duration"):
                        wit.append((t._duration, z3.IntVal(0)))
                    goal = z3.substitute(And(*A), *wit)
                if ctx.get("direct") is False:
                    # chosen through a selection: the selection flags and the other worker's interval are
                    # auxiliary too -- some value of them must do
                    from psvc.runner import _consts_in_order

                    keep = {"horizon", f"{t.name}_scheduled"}
                    aux = [c for c in _consts_in_order([goal]) if not c.decl().name().startswith("P_") and c.decl().name() not in keep]
                    if aux:
                        goal = z3.Exists(aux, goal)
                out.append(Clause("complete[an optional task can be left out]", goal, hyps=[Not(spec.sched(t)), hz >= 0, hz <= T(H)], props=("C05", "C06"), kind="complete", bounded=self.bounded))
        return out


# ------------------------------------------------------------------------------ selections
class SelBase(Contract):
    props = ("C04", "C05")
    bounded = "two selections over lists of 2..3 workers (identical, overlapping, disjoint); counts concrete 1..2"
    inlines = ("constraint.Constraint.__init__", "constraint.Constraint.set_z3_assertions", "resource.SelectWorkers.__init__", "task.Task.add_required_resource", "solver.SchedulingSolver.initialize")

    def cases(self, tier):
        out = []
        for l1, l2 in ((("a", "b"), ("a", "b")), (("a", "b", "c"), ("a", "b", "c")), (("a", "b"), ("b", "c")), (("a", "b"), ("c", "d")), (("a", "b", "c"), ("b", "c"))):
            for n1, n2 in ((1, 1), (2, 2), (1, 2)):
                if n1 > len(l1) or n2 > len(l2):
                    continue
                for kind in ("exact", "min"):
                    out.append(dict(l1=l1, l2=l2, n1=n1, n2=n2, kind=kind))
        return out

    def scenario(self, ps, P, case):
        P.assume(P.int("H") >= 1)
        pb = ps.SchedulingProblem(name="pb", horizon=P.int("H"))
        names = sorted(set(case["l1"]) | set(case["l2"]))
        W = {n: ps.Worker(name=n) for n in names}
        P.assume(P.int("d1") >= 1)
        P.assume(P.int("d2") >= 1)
        t1 = ps.FixedDurationTask(name="t1", duration=P.int("d1"))
        t2 = ps.FixedDurationTask(name="t2", duration=P.int("d2"))
        s1 = ps.SelectWorkers(list_of_workers=[W[n] for n in case["l1"]], nb_workers_to_select=case["n1"], kind=case["kind"])
        s2 = ps.SelectWorkers(list_of_workers=[W[n] for n in case["l2"]], nb_workers_to_select=case["n2"], kind=case["kind"])
        t1.add_required_resource(s1)
        t2.add_required_resource(s2)
        c = getattr(ps, self.cls_name)(select_workers_1=s1, select_workers_2=s2)
        solver = ps.SchedulingSolver(problem=pb)
        solver.initialize()
        return dict(pb=pb, W=W, s1=s1, s2=s2, c=c, solver=solver, tasks=[t1, t2])

    def picked(self, sw, w):
        return sw._selection_dict[w] if w in sw._selection_dict else z3.BoolVal(False)

    def clauses(self, P, ctx, case):
        A = asserted(ctx["solver"])
        M = self.meaning(ctx, case)
        out = [Clause("sound", M, hyps=A, props=("C04",), kind="sound", bounded=self.bounded, regions=self.sound_regions(ctx, case))]
        # completeness: any pair of selections with the documented relation and valid counts, with the two
        # tasks placed apart, is admitted
        pb, (t1, t2) = ctx["pb"], ctx["tasks"]
        hz, H = pb._horizon, pb.horizon
        valid = [valid_placement(t1, 1, hz, H), valid_placement(t2, 2, hz, H), hz >= 0, hz <= T(H), t1._end <= t2._start]
        counts = [
            spec.cmp_kind(case["kind"], spec.count(list(ctx["s1"]._selection_dict.values())), case["n1"]),
            spec.cmp_kind(case["kind"], spec.count(list(ctx["s2"]._selection_dict.values())), case["n2"]),
        ]
        aux = fresh_consts(A, [t1, t2], pb, extra_known=[v for s in (ctx["s1"], ctx["s2"]) for v in s._selection_dict.values() if isinstance(v, z3.ExprRef)])
        goal = z3.Exists(aux, And(*A)) if aux else And(*A)
        out.append(Clause("complete", goal, hyps=valid + counts + [M], props=("C05",), kind="complete", bounded=self.bounded, regions=self.complete_regions(ctx, case)))
        return out

    def sound_regions(self, ctx, case):
        return None

    def complete_regions(self, ctx, case):
        return None

    def sentinels(self, P, ctx, case):
        return [Clause("sentinel[false]", z3.BoolVal(False), hyps=asserted(ctx["solver"]), props=("C04",), kind="sound")]


@register
class SameWorkers(SelBase):
    lifts = True  # element-wise meaning: holds for every list length once the loops are independent (contracts/loops.py)
    target = "resource_constraint.SameWorkers.__init__"
    cls_name = "SameWorkers"

    def meaning(self, ctx, case):
        return And(*[self.picked(ctx["s1"], w) == self.picked(ctx["s2"], w) for w in ctx["W"].values()])

    def sound_regions(self, ctx, case):
        if set(case["l1"]) != set(case["l2"]):
            only = [self.picked(ctx["s1"], w) if n not in case["l2"] else self.picked(ctx["s2"], w) for n, w in ctx["W"].items() if (n in case["l1"]) != (n in case["l2"])]
            return {"a worker listed by only one of the two selections is picked": Or(*only)}
        return None


@register
class DistinctWorkers(SelBase):
    lifts = True  # element-wise meaning: holds for every list length once the loops are independent (contracts/loops.py)
    target = "resource_constraint.DistinctWorkers.__init__"
    cls_name = "DistinctWorkers"

    def meaning(self, ctx, case):
        return And(*[Not(And(self.picked(ctx["s1"], w), self.picked(ctx["s2"], w))) for w in ctx["W"].values()])

    def complete_regions(self, ctx, case):
        common = [w for n, w in ctx["W"].items() if n in case["l1"] and n in case["l2"]]
        if not common:
            return None
        return {"a common worker is picked by neither selection": Or(*[And(Not(self.picked(ctx["s1"], w)), Not(self.picked(ctx["s2"], w))) for w in common])}
