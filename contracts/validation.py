"""C18 -- ill-formed model elements are rejected at creation, well-formed ones accepted.

The Reject side: each ill-formedness condition listed in the property statement is a raises_iff
clause (the exception must be raised exactly under that condition; the boundary is explored
symbolically, the pydantic acceptance predicate being read from the real field declarations).
The Accept side: every path of every contract that ends in an exception not announced by its
raises() clause fails a `raises_only_if` obligation, so "well-formed but rejected" surfaces in every
contract of every property (task, resource, constraint, indicator, buffer contracts).
"""
import z3

from psvc.contract import Contract, Clause, register, T, And, Or, Not, Implies, If

ACCEPTED = lambda: [Clause("state[accepted]", z3.BoolVal(True), props=("C18",), kind="state")]  # noqa: E731


@register
class TaskNumbers(Contract):
    """negative work amount, priority, minimum duration; non-positive fixed duration"""

    target = "task.Task.__init__"
    props = ("C18",)

    def cases(self, tier):
        return [dict(cls=c) for c in ("FixedDurationTask", "ZeroDurationTask", "VariableDurationTask")]

    def scenario(self, ps, P, case):
        pb = ps.SchedulingProblem(name="pb")
        kw = dict(name="t", work_amount=P.int("wa"), priority=P.int("prio"))
        if case["cls"] == "FixedDurationTask":
            kw["duration"] = P.int("dur")
        if case["cls"] == "VariableDurationTask":
            kw["min_duration"] = P.int("min")
            kw["max_duration"] = P.int("max")
        return dict(t=getattr(ps, case["cls"])(**kw))

    def raises(self, P, case):
        bad = [T(P.int("wa")) < 0, T(P.int("prio")) < 0]
        if case["cls"] == "FixedDurationTask":
            bad.append(T(P.int("dur")) <= 0)
        if case["cls"] == "VariableDurationTask":
            bad += [T(P.int("min")) < 0, T(P.int("max")) <= 0]
        return [("ValidationError", Or(*bad))]

    def clauses(self, P, ctx, case):
        return ACCEPTED()


@register
class WorkerNumbers(Contract):
    target = "resource.Worker.__init__"
    props = ("C18",)

    def scenario(self, ps, P, case):
        pb = ps.SchedulingProblem(name="pb")
        return dict(w=ps.Worker(name="w", productivity=P.int("prod")))

    def raises(self, P, case):
        return [("ValidationError", T(P.int("prod")) < 0)]

    def clauses(self, P, ctx, case):
        return ACCEPTED()


KINDS = ("task", "worker", "cumulative", "select", "constraint", "indicator", "objective", "buffer", "problem_horizon")


@register
class DuplicateNames(Contract):
    """a name already used by an element of the same kind is rejected; the same name for elements of
    different kinds, or different names, are accepted"""

    target = "problem.SchedulingProblem.add_task"
    inlines = (
        "problem.SchedulingProblem.add_resource_worker",
        "problem.SchedulingProblem.add_resource_cumulative_worker",
        "problem.SchedulingProblem.add_resource_select_workers",
        "problem.SchedulingProblem.add_constraint",
        "problem.SchedulingProblem.add_indicator",
        "problem.SchedulingProblem.add_objective",
        "problem.SchedulingProblem.add_buffer",
    )
    props = ("C18",)

    def cases(self, tier):
        out = []
        for k in KINDS[:-1]:
            for same in (True, False):
                out.append(dict(kind=k, same=same))
        out.append(dict(kind="cross", same=True))
        return out

    def scenario(self, ps, P, case):
        pb = ps.SchedulingProblem(name="pb", horizon=20)
        n1 = "x"
        n2 = "x" if case["same"] else "y"
        t = ps.FixedDurationTask(name="base_task", duration=1)
        w1 = ps.Worker(name="base_w1")
        w2 = ps.Worker(name="base_w2")
        k = case["kind"]
        if k == "task":
            ps.FixedDurationTask(name=n1, duration=1)
            ps.ZeroDurationTask(name=n2)
        elif k == "worker":
            ps.Worker(name=n1)
            ps.Worker(name=n2)
        elif k == "cumulative":
            ps.CumulativeWorker(name=n1, size=2)
            ps.CumulativeWorker(name=n2, size=3)
        elif k == "select":
            ps.SelectWorkers(name=n1, list_of_workers=[w1, w2])
            ps.SelectWorkers(name=n2, list_of_workers=[w1, w2])
        elif k == "constraint":
            ps.TaskStartAt(name=n1, task=t, value=1)
            ps.TaskEndBefore(name=n2, task=t, value=9)
        elif k == "indicator":
            ps.IndicatorFromMathExpression(name=n1, expression=t._start)
            ps.IndicatorFromMathExpression(name=n2, expression=t._end)
        elif k == "objective":
            ps.Objective(name=n1, target=t._start, kind="minimize")
            ps.Objective(name=n2, target=t._end, kind="minimize")
        elif k == "buffer":
            ps.NonConcurrentBuffer(name=n1, initial_level=1)
            ps.ConcurrentBuffer(name=n2, initial_level=1)
        elif k == "cross":
            ps.FixedDurationTask(name="x", duration=1)
            ps.Worker(name="x")
            ps.TaskStartAt(name="x", task=t, value=1)
            ps.NonConcurrentBuffer(name="x", initial_level=1)
            ps.IndicatorFromMathExpression(name="x", expression=t._start)
        return dict(pb=pb)

    def raises(self, P, case):
        return [("ValueError", z3.BoolVal(case["same"] and case["kind"] != "cross"))]

    def clauses(self, P, ctx, case):
        return ACCEPTED()


ELEMENTS = (
    "FixedDurationTask",
    "ZeroDurationTask",
    "VariableDurationTask",
    "Worker",
    "CumulativeWorker",
    "NonConcurrentBuffer",
    "ConcurrentBuffer",
    "IndicatorFromMathExpression",
    "ConstraintFromExpression",
    "ObjectiveMinimizeMakespan",
)


@register
class NoProblem(Contract):
    """any element created before a problem exists fails immediately with an error"""

    target = "task.Task.__init__"
    inlines = ("resource.Worker.__init__", "buffer.Buffer.__init__", "constraint.Constraint.__init__", "indicator.Indicator.__init__", "objective.Objective.__init__")
    props = ("C18",)

    def cases(self, tier):
        return [dict(cls=c, problem=p) for c in ELEMENTS for p in (False, True)]

    def scenario(self, ps, P, case):
        if case["problem"]:
            ps.SchedulingProblem(name="pb", horizon=10)
        c = case["cls"]
        if c == "FixedDurationTask":
            e = ps.FixedDurationTask(name="e", duration=1)
        elif c == "VariableDurationTask":
            e = ps.VariableDurationTask(name="e")
        elif c == "ZeroDurationTask":
            e = ps.ZeroDurationTask(name="e")
        elif c == "Worker":
            e = ps.Worker(name="e")
        elif c == "CumulativeWorker":
            e = ps.CumulativeWorker(name="e", size=2)
        elif c in ("NonConcurrentBuffer", "ConcurrentBuffer"):
            e = getattr(ps, c)(name="e", initial_level=0)
        elif c == "IndicatorFromMathExpression":
            e = ps.IndicatorFromMathExpression(name="e", expression=z3.Int("free") + 1)
        elif c == "ConstraintFromExpression":
            e = ps.ConstraintFromExpression(expression=z3.Int("free") > 1)
        else:
            e = ps.ObjectiveMinimizeMakespan()
        return dict(e=e)

    def raises(self, P, case):
        # which error is not specified by the property: an AssertionError where the library checks
        # explicitly, an AttributeError (None has no registry) elsewhere
        return [("AssertionError", z3.BoolVal(not case["problem"])), ("AttributeError", z3.BoolVal(not case["problem"]))]

    def clauses(self, P, ctx, case):
        return ACCEPTED()


@register
class BufferLevels(Contract):
    target = "buffer.Buffer.__init__"
    props = ("C18",)

    def cases(self, tier):
        return [dict(cls=c, init=i, final=f) for c in ("NonConcurrentBuffer", "ConcurrentBuffer") for i in (False, True) for f in (False, True)]

    def scenario(self, ps, P, case):
        pb = ps.SchedulingProblem(name="pb", horizon=10)
        kw = dict(name="b", lower_bound=P.int("lb"), upper_bound=P.int("ub"))
        if case["init"]:
            kw["initial_level"] = P.int("init")
        if case["final"]:
            kw["final_level"] = P.int("final")
        return dict(b=getattr(ps, case["cls"])(**kw))

    def raises(self, P, case):
        return [("AssertionError", z3.BoolVal(not case["init"] and not case["final"]))]

    def clauses(self, P, ctx, case):
        return ACCEPTED()


@register
class IndicatorBoundsInit(Contract):
    target = "indicator_constraint.IndicatorBounds.__init__"
    props = ("C18",)

    def cases(self, tier):
        return [dict(lo=l, hi=h) for l in (False, True) for h in (False, True)]

    def scenario(self, ps, P, case):
        pb = ps.SchedulingProblem(name="pb", horizon=10)
        t = ps.FixedDurationTask(name="t", duration=1)
        ind = ps.IndicatorFromMathExpression(name="i", expression=t._start)
        kw = {}
        if case["lo"]:
            kw["lower_bound"] = P.int("lo")
        if case["hi"]:
            kw["upper_bound"] = P.int("hi")
        return dict(c=ps.IndicatorBounds(indicator=ind, **kw))

    def raises(self, P, case):
        return [("AssertionError", z3.BoolVal(not case["lo"] and not case["hi"]))]

    def clauses(self, P, ctx, case):
        return ACCEPTED()


@register
class SelectMoreThanListed(Contract):
    """a selection of more workers than *listed* is rejected -- also when a listed element is a cumulative
    worker (which counts for one)"""

    target = "resource.SelectWorkers.__init__"
    props = ("C18",)

    def cases(self, tier):
        return [dict(members=m) for m in (("w", "w"), ("w", "cw3"), ("cw2", "cw3"), ("w", "w", "cw2"))]

    def scenario(self, ps, P, case):
        pb = ps.SchedulingProblem(name="pb", horizon=10)
        ws = []
        for i, m in enumerate(case["members"]):
            ws.append(ps.Worker(name=f"m{i}") if m == "w" else ps.CumulativeWorker(name=f"m{i}", size=int(m[2:])))
        return dict(sw=ps.SelectWorkers(list_of_workers=ws, nb_workers_to_select=P.int("nb")))

    def raises(self, P, case):
        nb = T(P.int("nb"))
        return [("ValidationError", nb <= 0), ("ValueError", And(nb > 0, nb > len(case["members"])))]

    def clauses(self, P, ctx, case):
        return ACCEPTED()


@register
class ObjectiveWithoutWeight(Contract):
    """an objective is well-formed without a weight (documented default 1), whichever class declares it"""

    target = "objective.Objective.__init__"
    inlines = ("objective.ObjectiveMinimizeIndicator.__init__", "objective.ObjectiveMaximizeIndicator.__init__")
    props = ("C18",)

    def cases(self, tier):
        return [dict(cls=c) for c in ("Objective", "ObjectiveMinimizeIndicator", "ObjectiveMaximizeIndicator")]

    def scenario(self, ps, P, case):
        pb = ps.SchedulingProblem(name="pb", horizon=10)
        t = ps.FixedDurationTask(name="t", duration=1)
        ind = ps.IndicatorFromMathExpression(name="i", expression=t._start)
        if case["cls"] == "Objective":
            o = ps.Objective(name="o", target=ind, kind="minimize")
        else:
            o = getattr(ps, case["cls"])(target=ind)
        return dict(o=o)

    def raises(self, P, case):
        return []

    def clauses(self, P, ctx, case):
        return [Clause("state[accepted, with weight 1]", T(ctx["o"].weight) == 1, props=("C18",), kind="state")]
