"""Contracts on the optimisation path (C07, C13, C15):
SchedulingSolver._solve_optimize_incremental (loop contract), create_objective,
build_equivalent_weighted_objective, solve (optimising branches).

Loop contract of the incremental optimiser (kind min; max symmetric).  Ghost state: Base = the
formulas stacked at loop entry; F = an arbitrary value among those found in earlier iterations.

  Inv  ==  (A)  no incumbent: the state is the initial one (solution = False, current = None,
                nothing pushed, stack = Base)
        \\/ (B)  incumbent m: solution = m, Base holds in m, current = value(m),
                stack == Base /\\ (variable < current), current <= F, at least one scope pushed,
                num_iter >= 1
  (every timing test is a havocked Boolean: each interruption point is a path)

Postconditions, by exit:
  every exit            result is False, or a model in which Base holds (a valid schedule), whose value
                        is no worse than any value found before
  unsat with incumbent  for every assignment x: Base(x) => value(x) >= value(result)        (optimal)
  unsat, no incumbent   result False and Base unsatisfiable                                 (truthful)
  bound reached         optimal, under LB: the indicator's declared bound really bounds it
  C13 frame             the scopes pushed by the loop are popped again: stack at exit == Base
"""
import z3

from psvc.contract import Contract, Clause, register, T, And, Or, Not, Implies, If, asserted
from psvc import spec, sym, ghost, loopcut
from psvc.sym import SymInt, SymReal, current, mk
from contracts.task import make_task
from contracts.task_constraint import assume_valid_task
from contracts.resource import decode

ROLES = ["num_iter", "solution", "total_time", "current_variable_value", "three_last_times", "number_of_pushes"]
LABEL = "solver.SchedulingSolver._solve_optimize_incremental"  # the label of the obligations (stable across renamings)


def infer_loop():
    """locate the incremental optimiser and the roles of its loop-carried locals *by what the code does with
    them*, not by their names (a renaming of the private method, of its parameters or of its locals is a
    harmless change): the method of SchedulingSolver whose `while` loop pushes a scope; its parameters by
    position (self, variable, max_iter, kind); and
        solution                  <- assigned from a call of .model()
        current_variable_value    <- assigned from a call of .as_long()
        num_iter                  <- compared with the max_iter parameter
        total_time                <- augmented in the loop and compared with .max_time
        three_last_times          <- receives .append(..) and .pop(0) in the loop
        number_of_pushes          <- the argument of the .pop(..) of the solver after the loop
    returns dict(method, params, names (role -> local name), key, spec) or None when the shape is not recognised"""
    import ast
    import os
    from psvc import loader

    path = os.path.join(loader.REPO, "processscheduler", "solver.py")
    try:
        tree = ast.parse(open(path).read())
    except (OSError, SyntaxError):
        return None
    cls = next((n for n in tree.body if isinstance(n, ast.ClassDef) and n.name == "SchedulingSolver"), None)
    if cls is None:
        return None

    def calls_attr(node, attr):
        return [c for c in ast.walk(node) if isinstance(c, ast.Call) and isinstance(c.func, ast.Attribute) and c.func.attr == attr]

    for fn in [n for n in cls.body if isinstance(n, ast.FunctionDef)]:
        loops = loopcut._loops_of(fn)
        cand = [(k, l) for k, l in enumerate(loops) if isinstance(l, ast.While) and calls_attr(l, "push")]
        if not cand:
            continue
        k, loop = cand[0]
        params = [a.arg for a in fn.args.args]
        if len(params) < 4:
            continue
        names = {}
        for n in ast.walk(fn):
            if isinstance(n, ast.Assign) and len(n.targets) == 1 and isinstance(n.targets[0], ast.Name) and isinstance(n.value, ast.Call) and isinstance(n.value.func, ast.Attribute):
                if n.value.func.attr == "model":
                    names["solution"] = n.targets[0].id
                elif n.value.func.attr == "as_long":
                    names["current_variable_value"] = n.targets[0].id
        aug = {n.target.id for n in ast.walk(loop) if isinstance(n, ast.AugAssign) and isinstance(n.target, ast.Name)}
        for n in ast.walk(loop):
            if isinstance(n, ast.Compare) and isinstance(n.left, ast.Name) and len(n.comparators) == 1:
                c = n.comparators[0]
                if isinstance(c, ast.Name) and c.id == params[2]:
                    names["num_iter"] = n.left.id
                if isinstance(c, ast.Attribute) and c.attr == "max_time" and n.left.id in aug:
                    names["total_time"] = n.left.id
        appended = {c.func.value.id for c in calls_attr(loop, "append") if isinstance(c.func.value, ast.Name)}
        popped = {c.func.value.id for c in calls_attr(loop, "pop") if isinstance(c.func.value, ast.Name)}
        both = sorted(appended & popped)
        if both:
            names["three_last_times"] = both[0]
        for c in calls_attr(fn, "pop"):
            if c.args and isinstance(c.args[0], ast.Name) and not isinstance(c.func.value, ast.Name):
                names["number_of_pushes"] = c.args[0].id
        need = ["num_iter", "solution", "total_time", "current_variable_value", "three_last_times"]
        if not all(r in names for r in need):
            return None
        state = [names[r] for r in ROLES if r in names]
        assigned = loopcut._assigned_names(loop.body)
        temps = sorted(assigned - set(state))
        key = f"processscheduler.solver.SchedulingSolver.{fn.name}#{k}"
        return dict(method=fn.name, params=params, names=names, roles=[r for r in ROLES if r in names], key=key, spec=loopcut.LoopSpec(state=state, temps=temps))
    return None


_INFERRED = {}


def inferred():
    from psvc import loader

    if loader.REPO not in _INFERRED:
        _INFERRED[loader.REPO] = infer_loop()
    return _INFERRED[loader.REPO]


def run_incremental(solver, variable, kind, max_iter="default"):
    """call the incremental optimiser of the real solver, whatever its private name and parameter names are"""
    inf = inferred()
    kw = {inf["params"][3]: kind}
    if max_iter != "default":
        kw[inf["params"][2]] = max_iter
    return getattr(solver, inf["method"])(variable, **kw)


def better(kind, a, b):
    """a is strictly better than b"""
    return a < b if kind == "min" else a > b


def no_worse(kind, a, b):
    return a <= b if kind == "min" else a >= b


class IncrementalLoop:
    """the invariant, as executable ghost code"""

    def __init__(self, props):
        self.props = props
        self.info = None

    def cl(self, name, goal, hyps=()):
        current().add_clause(Clause(name, goal, hyps=hyps, props=self.props, kind="invariant"))

    def enter(self, key, values, locs):
        names = self.names
        st = dict(zip(names, values))
        prm = inferred()["params"]
        slf, variable, kind = locs[prm[0]], locs[prm[1]], locs[prm[3]]
        G = slf._solver
        base = list(G.stack())
        info = dict(base=base, variable=variable, kind=kind, base_len=len(G.frames), case=None, F=None, prev=None, G=G, base_scopes=G.num_scopes())
        self.info = info
        slf._psvc_loop_info = info
        # (init) the state at loop entry satisfies disjunct (A)
        init_ok = st["num_iter"] == 0 and st["solution"] is False and st["current_variable_value"] is None and st["three_last_times"] == [] and st.get("number_of_pushes", 0) == 0
        self.cl("loop-invariant[holds on entry]", z3.BoolVal(bool(init_ok)))
        G.base_len = len(G.frames)
        p = current()
        if p.choice(2) == 0:
            info["case"] = "A"
            return values
        # (B) an arbitrary state with an incumbent
        info["case"] = "B"
        n = SymInt(z3.Int(p.fresh_name("n")))
        p.assume(n.term >= 1)
        k = next(ghost._model_counter)
        m = ghost.GhostModel(G, k, base)
        for f in base:
            p.pc.append(m.rename(f))
        if not p.engine.feasible(p.pc):
            raise sym.PathAbort("no model of Base")
        G.models.append(m)
        c = mk(m.value(variable))
        F = z3.Int(p.fresh_name("F"))
        p.assume(no_worse(kind, sym._term(c), F))
        info["F"], info["prev"] = F, sym._term(c)
        total = SymReal(z3.Real(p.fresh_name("T")))
        p.assume(total.term >= 0)
        nl = p.choice(4)
        three = [SymReal(z3.Real(p.fresh_name("T"))) for _ in range(nl)]
        pushed = SymInt(z3.Int(p.fresh_name("k")))
        p.assume(pushed.term >= 1)
        G.frames = G.frames[: G.base_len] + [[(better(kind, variable, sym._term(c)), None)]]
        G.scope_offset = pushed - 1
        G.last = z3.sat
        G._model = m
        out = dict(st)
        out.update(num_iter=n, solution=m, total_time=total, current_variable_value=c, three_last_times=three)
        if "number_of_pushes" in out:
            out["number_of_pushes"] = pushed
        return tuple(out[x] for x in names)

    def back(self, key, values, locs):
        names = self.names
        st = dict(zip(names, values))
        info = self.info
        G, variable, kind, base = info["G"], info["variable"], info["kind"], info["base"]
        m = st["solution"]
        ok_shape = isinstance(m, ghost.GhostModel) and st["current_variable_value"] is not None
        self.cl("loop-invariant[preserved: an incumbent exists after a completed iteration]", z3.BoolVal(bool(ok_shape)))
        if ok_shape:
            c = sym._term(st["current_variable_value"])
            self.cl("loop-invariant[preserved: Base holds in the incumbent]", And(*[m.rename(f) for f in base]))
            self.cl("loop-invariant[preserved: current = value of the objective in the incumbent]", c == m.value(variable))
            stack = G.stack()
            self.cl("loop-invariant[preserved: stack == Base /\\ (variable better than current)]", And(*stack) == And(*base, better(kind, variable, c)))
            self.cl("loop-invariant[preserved: num_iter >= 1]", T(st["num_iter"]) >= 1)
            self.cl("loop-invariant[preserved: at least one scope pushed]", sym._term(G.pushed_count()) >= 1)
            if "number_of_pushes" in st:
                self.cl("loop-invariant[preserved: push counter = number of pushed scopes]", T(st["number_of_pushes"]) == sym._term(G.pushed_count()))
            if info["case"] == "B":
                self.cl("loop-invariant[preserved: no worse than every value found before]", And(no_worse(kind, c, info["F"]), no_worse(kind, c, info["prev"])))
        raise sym.PathCut("loop back edge")


class OptBase(Contract):
    props = ("C07", "C13", "C15", "C12")
    diff = "eval"
    @property
    def loop_contracts(self):
        inf = inferred()
        if inf is None:
            raise sym.Unsupported("the incremental optimiser's loop was not recognised (no method of SchedulingSolver with a `while` loop that pushes a scope, or its loop-carried locals do not have the expected uses)")
        return {inf["key"]: inf["spec"]}


@register
class IncrementalOptimizer(OptBase):
    target = LABEL
    inlines = ("solver.SchedulingSolver.check_sat", "solver.SchedulingSolver.solve", "solver.SchedulingSolver.create_objective", "solver.SchedulingSolver.initialize", "util.calc_parabola_from_three_points")
    bounded = None

    def cases(self, tier):
        out = []
        objs = ["makespan", "flowtime", "utilization_max", "indicator_min_bounded", "indicator_max", "two_weighted_min", "two_weighted_max"]
        if tier == "thorough":
            objs += ["priorities", "start_latest", "greatest_start"]
        for obj in objs:
            for mi in ("none", "int"):
                out.append(dict(obj=obj, max_iter=mi))
        # any verbosity (what the optimiser prints on the way must not change what it optimises), with an indicator that
        # is only reported declared after the objective
        for obj in ("makespan", "indicator_max", "two_weighted_min"):
            out.append(dict(obj=obj, max_iter="none", verbose=True))
        return out

    def build(self, ps, P, case):
        P.assume(P.int("H") >= 1)
        pb = ps.SchedulingProblem(name="pb", horizon=P.int("H"))
        P.assume(P.int("d1") >= 1)
        t1 = ps.FixedDurationTask(name="t1", duration=P.int("d1"))
        t2 = ps.VariableDurationTask(name="t2", optional=True)
        w = ps.Worker(name="w")
        t1.add_required_resource(w)
        t2.add_required_resource(w)
        o = case["obj"]
        if o == "makespan":
            obj = ps.ObjectiveMinimizeMakespan()
        elif o == "flowtime":
            obj = ps.ObjectiveMinimizeFlowtime()
        elif o == "utilization_max":
            obj = ps.ObjectiveMaximizeResourceUtilization(resource=w)
        elif o == "priorities":
            obj = ps.ObjectivePriorities()
        elif o == "start_latest":
            obj = ps.ObjectiveTasksStartLatest()
        elif o == "greatest_start":
            obj = ps.ObjectiveMinimizeGreatestStartTime()
        elif o in ("two_weighted_min", "two_weighted_max"):
            # several objectives of the same direction with symbolic weights: the loop optimises their weighted sum
            kind = "minimize" if o.endswith("min") else "maximize"
            P.assume(P.int("w1") >= 1)
            P.assume(P.int("w2") >= 1)
            i1 = ps.IndicatorFromMathExpression(name="i1", expression=t1._start + t2._end)
            i2 = ps.IndicatorFromMathExpression(name="i2", expression=t2._start)
            ps.Objective(name="o1", target=i1, weight=P.int("w1"), kind=kind)
            obj = ps.Objective(name="o2", target=i2, weight=P.int("w2"), kind=kind)
        elif o == "indicator_min_bounded":
            ind = ps.IndicatorFromMathExpression(name="ind", expression=t1._start + t2._end, bounds=(P.int("lb"), P.int("ub")))
            obj = ps.ObjectiveMinimizeIndicator(target=ind, weight=1)
        else:
            ind = ps.IndicatorFromMathExpression(name="ind", expression=t1._start - t2._end)
            obj = ps.ObjectiveMaximizeIndicator(target=ind, weight=1)
        if case.get("verbose"):
            ps.IndicatorFromMathExpression(name="reported", expression=t2._start - t1._end)
        return pb, obj, (t1, t2, w)

    def scenario(self, ps, P, case):
        pb, obj, _ = self.build(ps, P, case)
        P.apply_pins(ps)
        kw = {}
        if case.get("verbose"):
            P.assume(P.int("verbosity") >= 0)
            kw["verbosity"] = P.int("verbosity")
        if case["max_iter"] == "int":
            P.assume(P.int("max_iter") >= 1)
            kw["max_iter"] = P.int("max_iter")
        solver = ps.SchedulingSolver(problem=pb, **kw)
        h = None
        if P.symbolic:
            h = IncrementalLoop(self.props)
            h.names = inferred()["roles"]  # the state by role, in the order of the loop contract's state tuple
            loopcut.ACTIVE[inferred()["key"]] = h
        printed = []
        B = ps.__dict__.get("__builtins__")
        old_print = None
        if P.symbolic and isinstance(B, dict):
            # what the optimiser prints is its own account of why it stopped ("Found optimum ...")
            old_print = B.get("print")
            B["print"] = lambda *a, **k: printed.append(" ".join(str(x) for x in a))
        try:
            solver.initialize()
            base = list(asserted(solver))
            variable = solver._objective._target
            kind = "min" if solver._objective.kind == "minimize" else "max"
            result = run_incremental(solver, variable, kind, max_iter=solver.max_iter)
        finally:
            loopcut.ACTIVE.pop(inferred()["key"], None)
            if old_print is not None:
                B["print"] = old_print
        return dict(pb=pb, obj=obj, solver=solver, result=result, base=base, variable=variable, kind=kind, handler=h, printed=printed)

    def clauses(self, P, ctx, case):
        solver, result, base, variable, kind = ctx["solver"], ctx["result"], ctx["base"], ctx["variable"], ctx["kind"]
        out = []
        want_kind = "max" if case["obj"] in ("utilization_max", "indicator_max", "start_latest", "two_weighted_max") else "min"
        if case["obj"].startswith("two_weighted"):
            out.append(Clause("wiring[direction is the declared objectives']", z3.BoolVal(kind == want_kind), props=("C07", "C15"), kind="state"))
        else:
            out.append(Clause("wiring[direction and target are the declared objective's]", z3.BoolVal(kind == want_kind and variable.eq(T(ctx["obj"]._target))), props=("C07", "C15"), kind="state"))
        if not P.symbolic:
            # native run (differential): the real optimiser ran to the end on this instance
            if result is False:
                return out
            val = result[variable].as_long()
            if case["max_iter"] == "none" and solver._objective._bounds is None:
                # without iteration limit and declared bound the real loop ends on unsat (or a time-out,
                # which these tiny instances never reach): the result must be optimal
                s = z3.Solver()
                s.add(*base)
                s.add(better(kind, variable, val))
                out.append(Clause("post[optimal when the loop ends on unsat]", z3.BoolVal(s.check() == z3.unsat), props=("C07", "C15"), kind="sound"))
            s2 = z3.Solver()
            s2.add(*solver._solver.assertions())
            s2.add(*base)
            out.append(Clause("frame[scopes pushed by the loop are popped: stack == Base]", z3.BoolVal(solver._solver.num_scopes() == 0), props=("C13", "C12"), kind="frame"))
            return out
        G = solver._solver
        info = solver._psvc_loop_info
        if result is False:
            out.append(Clause("post[no incumbent: result False]", z3.BoolVal(info["case"] == "A"), props=("C07",), kind="sound"))
            if G.last == z3.unsat:
                # truthful: the stack declared unsatisfiable is Base itself
                out.append(Clause("post[infeasible verdict is about Base]", And(*G.unsat_facts[-1]) == And(*base), props=("C07", "C13"), kind="sound"))
        else:
            m = result
            out.append(Clause("post[result is a model of Base: a valid schedule]", And(*[m.rename(f) for f in base]), props=("C07", "C13"), kind="sound"))
            val = m.value(variable)
            if info["case"] == "B":
                out.append(Clause("post[no worse than any value found before]", no_worse(kind, val, info["F"]), props=("C07",), kind="sound"))
            announced = any("Found optimum" in line for line in ctx["printed"])
            stopped_early = any(("Max time" in line) for line in ctx["printed"]) or any(e[0] == "warn" for e in getattr(ctx["handler"], "events", []))
            if G.last == z3.unsat or announced:
                # the optimiser was allowed to finish (it ended on unsat, or announces "Found optimum"): the
                # result must be a best value.  Hypotheses: the unsat answer instantiated at an arbitrary
                # assignment x, and LB: the indicator's declared bounds really bound it.
                X = ghost.GhostModel(G, 9000 + next(ghost._model_counter), base)
                hyps = []
                if G.last == z3.unsat:
                    hyps.append(Not(And(*[X.rename(f) for f in G.unsat_facts[-1]])))
                bounds = solver._objective._bounds
                if bounds is not None:
                    lo, hi = bounds
                    vx = X.value(variable)
                    hyps.append(Implies(And(*[X.rename(f) for f in base]), And(T(lo) <= vx, vx <= T(hi))))
                goal = Implies(And(*[X.rename(f) for f in base]), no_worse(kind, val, X.value(variable)))
                out.append(Clause("post[when the optimiser finishes (unsat, or 'Found optimum') the result is optimal]", goal, hyps=hyps, props=("C07",), kind="sound"))
        # C13: whatever the exit, the loop leaves the stack as it found it
        out.append(Clause("frame[scopes pushed by the loop are popped: stack == Base]", And(z3.BoolVal(len(G.frames) == info["base_len"]), sym._term(G.pushed_count()) == 0), props=("C13", "C12"), kind="frame"))  # C12 depends on it: a blocking clause added inside a left-over scope is lost at the next pop
        return out

    def sentinels(self, P, ctx, case):
        if not P.symbolic or ctx["result"] is False:
            return []
        m = ctx["result"]
        return [Clause("sentinel[objective value is 0]", m.value(ctx["variable"]) == 0, props=("C07", "C13", "C15"), kind="sound")]


def _incremental_native_search(case, params, ob):
    """real library: run the incremental optimiser to the end on a small family of instances of this case
    and compare with the true optimum of the same constraint system (computed by z3.Optimize on Base)"""
    import io, contextlib, warnings
    from psvc import runner
    from psvc.contract import Params

    ps = runner.native_ps()
    con = IncrementalOptimizer()
    tried = 0
    weights = sorted({(max(1, int(params.get("w1") or 1)), max(1, int(params.get("w2") or 1))), (1, 1), (3, 2)}) if case["obj"].startswith("two_weighted") else [(1, 1)]
    verbosities = sorted({int(params.get("verbosity") or 0), 1, 2}) if case.get("verbose") else [0]
    bounds_grid = ((0, 0), (0, 3), (0, 5), (0, 8), (1, 9), (0, 12)) if "bounded" in case["obj"] else ((0, 0),)
    grid = [(H, d1, lb, ub, w1, w2, vb) for H in (3, 4, 6) for d1 in (1, 2) for lb, ub in bounds_grid for w1, w2 in weights for vb in verbosities]
    for H, d1, lb, ub, w1, w2, vb in grid:
        if True:
            if True:
                vals = dict(H=H, d1=d1, lb=lb, ub=ub, max_iter=1000, w1=w1, w2=w2, verbosity=vb)
                import processscheduler.base as base

                base.active_problem = None
                P = Params(vals)
                with contextlib.redirect_stdout(io.StringIO()), warnings.catch_warnings():
                    warnings.simplefilter("ignore")
                    try:
                        pb, obj, _ = con.build(ps, P, case)
                        solver = ps.SchedulingSolver(problem=pb, **({"verbosity": vb} if case.get("verbose") else {}))
                        solver.initialize()
                        B = list(solver._solver.assertions())
                        variable = solver._objective._target
                        kind = "min" if solver._objective.kind == "minimize" else "max"
                        res = run_incremental(solver, variable, kind)
                    except Exception:  # noqa
                        continue
                tried += 1
                o = z3.Optimize()
                o.add(*B)
                bounds = solver._objective._bounds
                if bounds is not None:
                    # only instances on which the declared bounds are true bounds
                    s = z3.Solver()
                    s.add(*B)
                    s.add(z3.Or(variable < bounds[0], variable > bounds[1]))
                    if s.check() != z3.unsat:
                        continue
                h = o.minimize(variable) if kind == "min" else o.maximize(variable)
                if o.check() != z3.sat:
                    if res is not False:
                        return {"confirmed": True, "observation": {"params": vals, "incremental": "a model", "truth": "infeasible"}}
                    continue
                best = o.model()[variable].as_long()
                if res is False:
                    return {"confirmed": True, "observation": {"params": vals, "incremental": False, "true_optimum": best}}
                got = res[variable].as_long()
                if got != best:
                    return {"confirmed": True, "observation": {"params": vals, "incremental_result": got, "true_optimum": best, "declared_bounds": list(bounds) if bounds else None}}
    return {"confirmed": False, "observation": {"instances_tried": tried}}


IncrementalOptimizer.native_search = staticmethod(_incremental_native_search)
