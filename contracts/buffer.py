"""Contracts on buffers (C09, C05, C06): Buffer.__init__, add_loading_task / add_unloading_task,
TaskLoadBuffer / TaskUnloadBuffer, the buffer section of SchedulingSolver.initialize,
util.sort_no_duplicates / sort_duplicates / clean_buffer_levels and the buffer part of build_solution.

Meaning (C09 statement, docs/buffer.md), stated on the *reported* BufferSolution of a returned solution.
Events: an unloading task changes the level by -quantity at its start, a loading task by +quantity at
its end.  With level_change_times T[0..k) and level L[0..k]:
  * T is strictly increasing and contains exactly the instants at which some event happens
  * L[0] = initial level (when given); L[j+1] = L[j] + sum of the quantities of the events at T[j]
  * L[k] = final level (when given); every L[j] lies within [lower_bound, upper_bound]
  * non-concurrent buffer: no two events at the same instant
"""
import itertools

import z3

from psvc.contract import Contract, Clause, register, T, And, Or, Not, Implies, If, asserted
from psvc import spec, sym, ghost
from contracts.task import make_task
from contracts.task_constraint import assume_valid_task, valid_placement
from contracts.resource import decode
from contracts.solution import is_solution


def dated_fields(P, case, i):
    """release date and due date (hard for even ranks, soft for odd ones) of the i-th task of a `dated` case"""
    if not case.get("dated"):
        return {}
    return dict(release_date=P.int(f"t{i+1}_release"), due_date=P.int(f"t{i+1}_due"), due_date_is_deadline=(i % 2 == 0))


def make_buffer(ps, P, kind, name, init=True, final=False, bounds=True):
    kw = dict(name=name)
    if init:
        kw["initial_level"] = P.int(f"{name}_init")
    if final:
        kw["final_level"] = P.int(f"{name}_final")
    if bounds:
        kw["lower_bound"] = P.int(f"{name}_lb")
        kw["upper_bound"] = P.int(f"{name}_ub")
    return getattr(ps, "NonConcurrentBuffer" if kind == "nc" else "ConcurrentBuffer")(**kw)


@register
class BufferLevelSequence(Contract):
    target = "solver.SchedulingSolver.initialize"
    inlines = (
        "buffer.Buffer.__init__",
        "buffer.Buffer.add_unloading_task",
        "buffer.Buffer.add_loading_task",
        "task_constraint.TaskUnloadBuffer.__init__",
        "task_constraint.TaskLoadBuffer.__init__",
        "util.sort_no_duplicates",
        "util.sort_duplicates",
        "util.clean_buffer_levels",
        "solver.SchedulingSolver.build_solution",
        "solver.SchedulingSolver.solve",
    )
    props = ("C09", "C06")
    diff = "eval"
    bounded = "one buffer with 1..3 accessing tasks (quick) / up to 4 (thorough); quantities, levels, bounds and all integers symbolic"

    def cases(self, tier):
        accs = [("U",), ("L",), ("U", "L"), ("L", "U"), ("U", "U"), ("L", "L"), ("U", "L", "U"), ("L", "L", "U")]
        if tier == "thorough":
            accs += [("U", "L", "U", "L"), ("L", "L", "L", "U")]
        out = []
        for kind in ("nc", "c"):
            for acc in accs:
                for init, final in ((True, False), (True, True), (False, True)):
                    if len(acc) >= 3 and (init, final) != (True, True):
                        continue
                    out.append(dict(kind=kind, acc=acc, init=init, final=final, opt=False))
            out.append(dict(kind=kind, acc=("U", "L"), init=True, final=False, opt=True))
            out.append(dict(kind=kind, acc=("U", "L"), init=True, final=True, opt=False, same_task=True))
            # tasks that declare a release date and a (hard / soft) due date
            out.append(dict(kind=kind, acc=("U", "L"), init=True, final=True, opt=True, dated=True))
        return out

    def scenario(self, ps, P, case):
        P.assume(P.int("H") >= 1)
        pb = ps.SchedulingProblem(name="pb", horizon=P.int("H"))
        b = make_buffer(ps, P, case["kind"], "b", init=case["init"], final=case["final"])
        tasks, events = [], []
        for i, a in enumerate(case["acc"]):
            if case.get("same_task") and i > 0:
                t = tasks[0]  # the task that unloaded at its start loads at its end
            else:
                P.assume(P.int(f"t{i+1}_dur") >= 1)
                t = ps.FixedDurationTask(name=f"t{i+1}", duration=P.int(f"t{i+1}_dur"), optional=(case["opt"] and i == 0), **dated_fields(P, case, i))
            P.assume(P.int(f"q{i+1}") >= 1)
            if a == "U":
                ps.TaskUnloadBuffer(task=t, buffer=b, quantity=P.int(f"q{i+1}"))
            else:
                ps.TaskLoadBuffer(task=t, buffer=b, quantity=P.int(f"q{i+1}"))
            tasks.append(t)
        P.apply_pins(ps)
        solver = ps.SchedulingSolver(problem=pb)
        sol = solver.solve()
        return dict(pb=pb, b=b, tasks=tasks, solver=solver, sol=sol)

    def events(self, P, ctx, case):
        """[(scheduled flag, time, signed quantity)] read from the reported task solutions"""
        sol = ctx["sol"]
        ev = []
        for i, (a, t) in enumerate(zip(case["acc"], ctx["tasks"])):
            ts = sol.tasks[t.name]
            q = T(P.int(f"q{i+1}"))
            if a == "U":
                ev.append((T(ts.scheduled), T(ts.start), -q))
            else:
                ev.append((T(ts.scheduled), T(ts.end), q))
        return ev

    def clauses(self, P, ctx, case):
        sol = ctx["sol"]
        if not is_solution(sol):
            return [Clause("state[no solution object without a sat answer]", z3.BoolVal(sol is False), props=("C09",), kind="state")]
        bs = sol.buffers["b"]
        L = [T(x) for x in bs.level]
        Tm = [T(x) for x in bs.level_change_times]
        ev = self.events(P, ctx, case)
        cs = [z3.BoolVal(len(L) == len(Tm) + 1)]
        for a, b in zip(Tm, Tm[1:]):
            cs.append(a < b)
        # every (real) event instant is reported, and nothing else
        for s, tm, q in ev:
            cs.append(Implies(s, Or(*[tm == x for x in Tm])))
        for x in Tm:
            cs.append(Or(*[And(s, tm == x) for s, tm, q in ev]))
        if case["init"]:
            cs.append(L[0] == T(P.int("b_init")))
        for j, x in enumerate(Tm):
            cs.append(L[j + 1] == L[j] + z3.Sum([If(And(s, tm == x), q, 0) for s, tm, q in ev]))
        if case["final"]:
            cs.append(L[-1] == T(P.int("b_final")))
        for l in L:
            cs.append(And(l >= T(P.int("b_lb")), l <= T(P.int("b_ub"))))
        if case["kind"] == "nc":
            for (s1, t1, q1), (s2, t2, q2) in itertools.combinations(ev, 2):
                cs.append(Implies(And(s1, s2), t1 != t2))
        regions = None
        if case["opt"]:
            regions = {"an optional accessing task is left out": Not(ev[0][0])}
        out = [Clause("report[buffer levels follow loads/unloads in time order, within bounds]", And(*cs), props=("C09", "C06"), kind="equals", bounded=self.bounded, regions=regions)]
        return out

    def sentinels(self, P, ctx, case):
        sol = ctx["sol"]
        if not is_solution(sol):
            return []
        bs = sol.buffers["b"]
        return [Clause("sentinel[level never changes]", T(bs.level[-1]) == T(bs.level[0]), props=("C09", "C06"), kind="sound")]


@register
class BufferCompleteness(Contract):
    """every placement whose level sequence stays within bounds is admitted (C05): one or two buffers with
    one accessing task each, and one buffer with two accessing tasks; auxiliary unknowns by witness"""

    target = "solver.SchedulingSolver.initialize"
    inlines = BufferLevelSequence.inlines
    props = ("C05", "C09")
    bounded = "1..2 buffers, 1..2 accessing tasks; quantities, levels, bounds and all integers symbolic"

    def cases(self, tier):
        out = []
        for kinds in (("nc",), ("c",), ("nc", "nc"), ("nc", "c"), ("c", "c")):
            for acc in (("U", "L"), ("L", "U"), ("U", "U")) if len(kinds) == 2 else (("U",), ("L",)):
                out.append(dict(kinds=kinds, acc=acc, shared=False))
        for kind in ("nc", "c"):
            for acc in (("U", "L"), ("L", "L"), ("U", "U")):
                out.append(dict(kinds=(kind,), acc=acc, shared=True))
            # one task takes from the buffer when it starts and gives back when it ends
            out.append(dict(kinds=(kind,), acc=("U", "L"), shared=True, same_task=True))
            out.append(dict(kinds=(kind,), acc=("U", "L"), shared=True, dated=True))
        return out

    def scenario(self, ps, P, case):
        P.assume(P.int("H") >= 1)
        pb = ps.SchedulingProblem(name="pb", horizon=P.int("H"))
        buffers = [make_buffer(ps, P, k, f"b{i+1}", init=True, final=False) for i, k in enumerate(case["kinds"])]
        tasks = []
        for i, a in enumerate(case["acc"]):
            if case.get("same_task") and i > 0:
                t = tasks[0][0]
            else:
                P.assume(P.int(f"t{i+1}_dur") >= 1)
                t = ps.FixedDurationTask(name=f"t{i+1}", duration=P.int(f"t{i+1}_dur"), **dated_fields(P, case, i))
            P.assume(P.int(f"q{i+1}") >= 1)
            b = buffers[0] if case["shared"] or len(buffers) == 1 else buffers[i]
            if a == "U":
                ps.TaskUnloadBuffer(task=t, buffer=b, quantity=P.int(f"q{i+1}"))
            else:
                ps.TaskLoadBuffer(task=t, buffer=b, quantity=P.int(f"q{i+1}"))
            tasks.append((t, b, a, i))
        solver = ps.SchedulingSolver(problem=pb)
        solver.initialize()
        return dict(pb=pb, buffers=buffers, tasks=tasks, solver=solver)

    def clauses(self, P, ctx, case):
        pb, buffers, tasks, solver = ctx["pb"], ctx["buffers"], ctx["tasks"], ctx["solver"]
        A = asserted(solver)
        hz, H = pb._horizon, pb.horizon
        distinct = []
        for (t, b, a, _) in tasks:
            if not any(t is u for u in distinct):
                distinct.append(t)
        valid = [valid_placement(t, i + 1, hz, H) for i, t in enumerate(distinct)] + [hz >= 0, hz <= T(H)]
        wit = []
        hyps = []
        for bi, b in enumerate(buffers):
            name = b.name
            mine = [(t, a, i) for (t, bb, a, i) in tasks if bb is b]
            init = T(P.int(f"{name}_init"))
            lb, ub = T(P.int(f"{name}_lb")), T(P.int(f"{name}_ub"))
            ev = [((t._start if a == "U" else t._end), (-T(P.int(f"q{i+1}")) if a == "U" else T(P.int(f"q{i+1}")))) for (t, a, i) in mine]
            levels, times = b._buffer_levels, b._level_changes_time
            wit.append((levels[0], init))
            hyps += [init >= lb, init <= ub]
            if len(ev) == 1:
                (tm, q), = ev
                wit += [(times[0], tm), (levels[1], init + q)]
                hyps += [init + q >= lb, init + q <= ub]
            elif len(ev) == 2:
                (t1, q1), (t2, q2) = ev
                first_t, second_t = spec.zmin(t1, t2), spec.zmax(t1, t2)
                wit += [(times[0], first_t), (times[1], second_t)]
                if case["kinds"][bi] == "nc":
                    hyps.append(t1 != t2)  # a non-concurrent buffer is never accessed twice at one instant
                    l1 = init + If(t1 < t2, q1, q2)
                    wit += [(levels[1], l1), (levels[2], init + q1 + q2)]
                    hyps += [l1 >= lb, l1 <= ub, init + q1 + q2 >= lb, init + q1 + q2 <= ub]
                else:
                    l1 = init + If(t1 < t2, q1, If(t2 < t1, q2, q1 + q2))
                    wit += [(levels[1], l1), (levels[2], init + q1 + q2)]
                    hyps += [l1 >= lb, l1 <= ub, init + q1 + q2 >= lb, init + q1 + q2 <= ub]
        goal = z3.substitute(And(*A), *wit)
        # witnesses for the per-task quantity functions of concurrent buffers: q at the task's instant, 0 elsewhere
        fwit = []
        for name, d in ghost.funcs_of([goal]).items():
            for (t, b, a, i) in tasks:
                if name == f"{b.name}_{t.name}_quantity_{'unloading' if a == 'U' else 'loading'}":
                    tm = t._start if a == "U" else t._end
                    q = -T(P.int(f"q{i+1}")) if a == "U" else T(P.int(f"q{i+1}"))
                    fwit.append((d, If(z3.Var(0, z3.IntSort()) == tm, q, z3.IntVal(0))))
        if fwit:
            goal = z3.substitute_funs(goal, *fwit)
        # the remaining auxiliaries (fresh sorted copies, the mapping array / quantity functions) are left existential
        from psvc.runner import _consts_in_order

        known = {"horizon"} | {f"{t.name}_{x}" for (t, _, _, _) in tasks for x in ("start", "end")}
        aux = [c for c in _consts_in_order([goal]) if c.decl().name() not in known and not c.decl().name().startswith("P_")]
        if aux:
            goal = z3.Exists(aux, goal)
        return [Clause("complete[every placement whose levels stay within bounds is admitted]", goal, hyps=valid + hyps, props=("C05", "C09"), kind="complete", bounded=self.bounded)]


@register
class CleanBufferLevels(Contract):
    optional_target = True  # a lemma about an internal helper of util.py
    """util.clean_buffer_levels: pure list function"""

    target = "util.clean_buffer_levels"
    props = ("C09",)
    raises_props = ("C09",)
    bounded = "lists of 0..3 change times; values symbolic"

    def cases(self, tier):
        return [dict(n=n, extra=e) for n in (0, 1, 2, 3) for e in (1, 0, 2)]

    def scenario(self, ps, P, case):
        import processscheduler  # noqa: F401  (native world) -- the engine passes its own package

        util = ps.SchedulingSolver.__init__.__globals__["clean_buffer_levels"] if hasattr(ps.SchedulingSolver.__init__, "__globals__") else None
        levels = [P.int(f"l{i}") for i in range(case["n"] + case["extra"])]
        times = [P.int(f"c{i}") for i in range(case["n"])]
        for a, b in zip(times, times[1:]):
            P.assume(a <= b)
        res = util(list(levels), list(times))
        return dict(levels=levels, times=times, res=res)

    def raises(self, P, case):
        return [("AssertionError", z3.BoolVal(case["extra"] != 1))]

    def clauses(self, P, ctx, case):
        levels, times = ctx["levels"], ctx["times"]
        nl, nt = ctx["res"]
        cs = [z3.BoolVal(len(nl) == len(nt) + 1), T(nl[0]) == T(levels[0])]
        for a, b in zip(nt, nt[1:]):
            cs.append(T(a) < T(b))
        # every change time is kept once, paired with the level recorded at its first occurrence
        for j, x in enumerate(nt):
            firsts = []
            for i, c in enumerate(times):
                earlier = [T(times[k]) != T(c) for k in range(i)]
                firsts.append(And(T(c) == T(x), *earlier, T(nl[j + 1]) == T(levels[i + 1])))
            cs.append(Or(*firsts))
        for c in times:
            cs.append(Or(*[T(c) == T(x) for x in nt]))
        return [Clause("returns[first occurrences, in order, with their levels]", And(*cs), props=("C09",), kind="equals", bounded=self.bounded)]
