"""Contract on plotter.render_gantt_matplotlib (C17), with recording ghost axes.

Meaning (C17 statement, docs/gantt_chart.md): resource view -- one bar per reported assignment, on the
row of its resource (row i occupies y in [2i, 2i+2]), from the assignment's start to its end; task view --
one bar per scheduled task from its start over its duration, none for unscheduled tasks; a zero-length
item is a marker of width 0.1 centred on its instant; the label is centred on the bar; buffers are
drawn as the reported step function.  That matplotlib turns broken_barh([(x, w)], (y, h)) into that
rectangle is assumed; natively the real renderer is also run (it must not raise)."""
import datetime

import z3

from psvc.contract import Contract, Clause, register, T, And, Or, Not, Implies, If
from psvc import sym, canvas
from contracts.export import make_solution, SHAPES


def calls(log, ax, meth):
    return [(a, k) for (n, m, a, k) in log if n == ax and m == meth]


@register
class GanttMatplotlib(Contract):
    target = "plotter.render_gantt_matplotlib"
    inlines = ("solution.SchedulingSolution.get_scheduled_tasks",)
    props = ("C17",)
    diff = "eval"
    bounded = "solutions with 1..3 tasks on one resource, 0..1 buffer with 2 level changes; times symbolic"

    def cases(self, tier):
        out = []
        for shape in SHAPES:
            for mode in ("Resource", "Task"):
                for buf in (False, True):
                    out.append(dict(shape=shape, mode=mode, buffer=buf))
        out.append(dict(shape=SHAPES[0], mode="Wrong", buffer=False))
        # calendar times: the time axis is labelled with clock times (start_time + i * delta_time) or durations
        for cal in ("delta", "start+delta"):
            for mode in ("Resource", "Task"):
                out.append(dict(shape=SHAPES[1], mode=mode, buffer=(mode == "Task"), cal=cal))
        return out

    DELTA = datetime.timedelta(minutes=45)
    START = datetime.datetime(2024, 2, 28, 22, 30)

    def build(self, ps, P, case):
        kw = {}
        if case.get("cal"):
            kw["delta_time"] = self.DELTA
            if case["cal"] == "start+delta":
                kw["start_time"] = self.START
            P.assume(P.int("hz") <= 3)  # the tick labels are built in a loop over the horizon: unrolled
        pb, sol = make_solution(ps, P, case["shape"], **kw)
        if case["buffer"]:
            BufferSolution = ps.solution.BufferSolution
            b = BufferSolution(name="b")
            P.assume(P.int("c1") >= 0)
            P.assume(P.int("c1") < P.int("c2"))
            P.assume(P.int("c2") <= P.int("hz"))
            b.level_change_times = [P.int("c1"), P.int("c2")]
            b.level = [P.int("l0"), P.int("l1"), P.int("l2")]
            sol.add_buffer_solution(b)
        return pb, sol

    def scenario(self, ps, P, case):
        pb, sol = self.build(ps, P, case)
        plotter = ps.plotter
        if P.symbolic:
            plotter.render_gantt_matplotlib(sol, show_plot=False, render_mode=case["mode"])
            log = [e[1] for e in sym.current().events if e[0] == "pltlog"][-1]
            return dict(sol=sol, log=list(log), ok=True)
        # native: the real renderer (Agg) must succeed ...
        import matplotlib.pyplot as real_plt

        ok = True
        try:
            plotter.render_gantt_matplotlib(sol, show_plot=False, render_mode=case["mode"])
        finally:
            real_plt.close("all")
        # ... and the same real function, run by CPython with recording axes, tells what it draws
        mods = canvas.modules()
        real = (plotter.plt, plotter.LinearSegmentedColormap)
        plotter.plt, plotter.LinearSegmentedColormap = mods["matplotlib.pyplot"], mods["matplotlib.colors"].LinearSegmentedColormap
        n0 = len(sym.current().events)
        try:
            plotter.render_gantt_matplotlib(sol, show_plot=False, render_mode=case["mode"])
            log = [e[1] for e in sym.current().events[n0:] if e[0] == "pltlog"][-1]
        finally:
            plotter.plt, plotter.LinearSegmentedColormap = real
            del sym.current().events[n0:]
        return dict(sol=sol, log=list(log), ok=ok)

    raises_props = ("C17",)

    def raises(self, P, case):
        return [("ValueError", z3.BoolVal(case["mode"] == "Wrong"))]

    def clauses(self, P, ctx, case):
        sol, log = ctx["sol"], ctx["log"]
        bars = calls(log, "ax0", "broken_barh")
        texts = calls(log, "ax0", "text")
        out = []
        want = []  # (row, x, width, label)
        if case["mode"] == "Resource":
            for i, (rn, rs) in enumerate(sol.resources.items()):
                for (n, s, e) in rs.assignments:
                    want.append((i, s, T(e) - T(s), n))
            rows = list(sol.resources.keys())
        else:
            sched = [t for t in sol.tasks.values() if t.scheduled]
            for i, t in enumerate(sched):
                want.append((i, t.start, T(t.end) - T(t.start), ",".join(t.assigned_resources) if t.assigned_resources else r"($\emptyset$)"))
            rows = [t.name for t in sched]
        cs = [z3.BoolVal(len(bars) == len(want) and len(texts) == len(want))]
        for (a, k), (tk, tkw), (row, x, w, label) in zip(bars, texts, want):
            (dims,), yr = a[0], a[1]
            bx, bw = T(dims[0]), T(dims[1])
            x, w = T(x), T(w)
            wr = z3.ToReal(w) if z3.is_int(w) else w
            xr = z3.ToReal(x) if z3.is_int(x) else x
            bxr = z3.ToReal(bx) if z3.is_int(bx) else bx
            bwr = z3.ToReal(bw) if z3.is_int(bw) else bw
            cs.append(z3.BoolVal(tuple(yr) == (2 * row, 2)))
            cs.append(If(w == 0, And(bxr == xr - z3.RealVal("0.05"), bwr == z3.RealVal("0.1")), And(bxr == xr, bwr == wr)))
            tx = T(tkw["x"])
            txr = z3.ToReal(tx) if z3.is_int(tx) else tx
            cs.append(And(2 * txr == 2 * xr + wr, z3.BoolVal(tkw["y"] == 2 * row + 1 and tkw["s"] == label)))
        out.append(Clause("draws[one bar per item, on its row, from start to end; zero-length items as a centred marker; centred label]", And(*cs), props=("C17",), kind="equals", bounded=self.bounded))
        ylabels = calls(log, "ax0", "set_yticklabels")
        out.append(Clause("draws[rows labelled in order]", z3.BoolVal(len(ylabels) == 1 and list(ylabels[0][0][0]) == rows), props=("C17",), kind="equals"))
        if case["buffer"]:
            plots = [(a, k) for (n, m, a, k) in log if n == "plt" and m == "plot"]
            b = sol.buffers["b"]
            xs = [0] + list(b.level_change_times) + [sol.horizon]
            ok = len(plots) == 1
            eqs = []
            if ok:
                X, Y = plots[0][0][0], plots[0][0][1]
                ok = len(X) == 3 * len(b.level) and len(Y) == 3 * len(b.level)
                if ok:
                    for j, lv in enumerate(b.level):
                        eqs += [T(X[3 * j]) == T(xs[j]), T(X[3 * j + 1]) == T(xs[j + 1]), T(Y[3 * j]) == T(lv), T(Y[3 * j + 1]) == T(lv)]
                        ok = ok and X[3 * j + 2] != X[3 * j + 2] and Y[3 * j + 2] != Y[3 * j + 2]  # nan separators
            out.append(Clause("draws[buffer levels as the reported step function]", And(z3.BoolVal(bool(ok)), *eqs), props=("C17",), kind="equals", bounded=self.bounded))
        # the time axis shows the whole schedule [0, horizon]; the rows 0 .. 2 * number of rows
        xl = calls(log, "ax0", "set_xlim")
        yl = calls(log, "ax0", "set_ylim")
        okx = len(xl) == 1 and len(xl[0][0]) == 2
        out.append(Clause("draws[axes show the time line from 0 to the horizon and every row]", And(z3.BoolVal(okx and len(yl) == 1 and tuple(yl[0][0]) == (0, 2 * len(rows))), (T(xl[0][0][0]) == 0) if okx else z3.BoolVal(False), (T(xl[0][0][1]) == T(sol.horizon)) if okx else z3.BoolVal(False)), props=("C17",), kind="equals"))
        if case.get("cal"):
            xt = [(a, k) for (n, m, a, k) in log if n == "plt" and m == "xticks"]
            ok = len(xt) == 1 and len(xt[0][0]) == 2
            eqs = []
            if ok:
                locs, labels = xt[0][0]
                labels = list(labels)
                # one tick per instant 0 .. horizon, each labelled with its calendar time
                if isinstance(locs, sym.SymRange):
                    lo, hi = locs.bounds()
                    eqs += [T(lo) == 0, T(hi) == len(labels)]
                else:
                    ok = list(locs) == list(range(len(labels)))
                eqs.append(T(sol.horizon) + 1 == len(labels))
                for i, lab in enumerate(labels):
                    want_lab = (self.START + i * self.DELTA).strftime("%H:%M") if case["cal"] == "start+delta" else f"{i * self.DELTA}"
                    ok = ok and lab == want_lab
            out.append(Clause("draws[calendar times: one tick per instant 0 .. horizon, labelled start_time + i * delta_time]", And(z3.BoolVal(bool(ok)), *eqs), props=("C17",), kind="equals", bounded="horizon <= 3 (tick labels built by an unrolled loop)"))
        else:
            # integer time axis: one tick per instant 0 .. horizon (a tick beyond would widen the axis)
            xt = calls(log, "ax0", "set_xticks")
            ok = len(xt) == 1 and len(xt[0][0]) >= 1
            eqs = []
            if ok:
                locs = xt[0][0][0]
                if isinstance(locs, sym.SymRange):
                    lo, hi = locs.bounds()
                    eqs += [T(lo) == 0, T(hi) == T(sol.horizon) + 1]
                else:
                    locs = list(locs)
                    eqs.append(T(sol.horizon) + 1 == len(locs))
                    ok = locs == list(range(len(locs)))
            out.append(Clause("draws[integer time axis: one tick per instant 0 .. horizon]", And(z3.BoolVal(bool(ok)), *eqs), props=("C17",), kind="equals"))
        out.append(Clause("state[rendering succeeds]", z3.BoolVal(bool(ctx["ok"])), props=("C17",), kind="state"))
        return out

    def sentinels(self, P, ctx, case):
        bars = calls(ctx["log"], "ax0", "broken_barh")
        if not bars:
            return []
        (dims,) = bars[0][0][0]
        return [Clause("sentinel[first bar starts at 0]", T(dims[0]) == 0, props=("C17",), kind="sound")]
