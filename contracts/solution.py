"""Contracts on SchedulingSolver.solve (non-optimising branch), check_sat and build_solution (C11, and the
end-to-end lemmas of C01/C02 on the returned SchedulingSolution).

The z3 solver is the ghost solver: check() forks sat | unsat | unknown; on sat the model is an arbitrary
assignment satisfying everything initialize() asserted.  The postconditions are stated on the
*returned solution object* and proved for every such model."""
import itertools

import z3

from psvc.contract import Contract, Clause, register, T, And, Or, Not, Implies, If, asserted
from psvc import spec
from psvc.timeabs import span, instant, us_of
from contracts.task import make_task
from contracts.task_constraint import assume_valid_task, dated_kw
from contracts.resource import decode


def is_solution(x):
    return x is not False and x is not None and hasattr(x, "tasks")


@register
class BuildSolution(Contract):
    target = "solver.SchedulingSolver.build_solution"
    inlines = (
        "solver.SchedulingSolver.solve",
        "solver.SchedulingSolver.check_sat",
        "solver.SchedulingSolver.initialize",
        "solution.SchedulingSolution.add_task_solution",
        "solution.SchedulingSolution.add_resource_solution",
        "solution.SchedulingSolution.add_indicator_solution",
        "solution.SchedulingSolution.get_scheduled_tasks",
    )
    props = ("C11", "C01", "C02", "C06", "C05")
    diff = "eval"
    bounded = "1..2 tasks, one requirement each (static / delayed / dynamic / selection of 2 / cumulative of size 2); all integers symbolic"

    def cases(self, tier):
        out = []
        reqs = ("none", "static", "delayed", "dynamic", "select", "cumulative", "cumulative+worker")
        for ts in (("Fm",), ("Fo",), ("Vo",), ("Zo",), ("Zm",), ("Fm", "Vo")):
            for req in reqs:
                for cal in ("none", "delta", "delta+start"):
                    if cal != "none" and (req not in ("none", "static") or len(ts) > 1):
                        continue
                    for hz in ("int", None):
                        if hz is None and (req not in ("none", "static") or cal != "none"):
                            continue
                        out.append(dict(ts=ts, req=req, cal=cal, horizon=hz))
        # tasks that declare a release date and a (soft / hard) due date
        for req in ("static", "delayed", "select", "cumulative+worker"):
            out.append(dict(ts=("Fm", "Vo"), req=req, cal="none", horizon="int", dated="mixed"))
        # "every schedule the solver can be steered to return": the report of an enumerated alternative (the second
        # solution of the same solver) is as faithful as the first one
        for ts in (("Fm",), ("Fo",), ("Fm", "Vo")):
            for req in ("static", "select", "dynamic", "cumulative+worker"):
                out.append(dict(ts=ts, req=req, cal="none", horizon="int", again=True))
        return out

    def scenario(self, ps, P, case):
        if case["horizon"]:
            P.assume(P.int("H") >= 1)
            pb = ps.SchedulingProblem(name="pb", horizon=P.int("H"))
        else:
            pb = ps.SchedulingProblem(name="pb")
        if case["cal"] != "none":
            P.assume(P.int("dt") >= 1)
            # the length of one period and the calendar origin, in microseconds (abstract calendar values under
            # the engine, the real datetime classes natively)
            pb.delta_time = span(P.int("dt"), P.symbolic)
            if case["cal"] == "delta+start":
                pb.start_time = instant(P.int("t0"), P.symbolic)
        res = None
        if case["req"] in ("static", "delayed", "dynamic"):
            res = ps.Worker(name="w")
        elif case["req"] == "select":
            res = [ps.Worker(name="w"), ps.Worker(name="w2")]
        elif case["req"] == "cumulative":
            res = ps.CumulativeWorker(name="cw", size=2)
        elif case["req"] == "cumulative+worker":
            res = (ps.CumulativeWorker(name="cw", size=2), ps.Worker(name="w"))
        tasks = []
        for i, code in enumerate(case["ts"]):
            cls, opt = decode(code)
            assume_valid_task(P, cls, f"t{i+1}")
            t = make_task(ps, P, cls, f"t{i+1}", optional=opt, **dated_kw(case, i))
            if case["req"] == "static":
                t.add_required_resource(res)
            elif case["req"] == "delayed":
                P.assume(P.int("delay_in") >= 0)
                P.assume(P.int("early_out") >= 0)
                if cls == "FixedDurationTask":
                    P.assume(P.int("delay_in") + P.int("early_out") <= P.int(f"t{i+1}_dur"))
                elif cls == "VariableDurationTask":
                    P.assume(P.int("delay_in") + P.int("early_out") <= P.int(f"t{i+1}_min"))
                else:
                    P.assume(P.int("delay_in") + P.int("early_out") == 0)
                t.add_required_resource(res, delay_in=P.int("delay_in"), early_out=P.int("early_out"))
            elif case["req"] == "dynamic":
                t.add_required_resource(res, dynamic=True)
            elif case["req"] == "select":
                t.add_required_resource(ps.SelectWorkers(list_of_workers=res, nb_workers_to_select=1, kind="min"))
            elif case["req"] == "cumulative":
                t.add_required_resource(res)
            elif case["req"] == "cumulative+worker":
                # the cumulative worker first, a plain worker after it
                t.add_required_resource(res[0])
                t.add_required_resource(res[1])
            tasks.append(t)
        P.apply_pins(ps)
        P.assume(P.int("verbosity") >= 0)
        P.assume(P.int("verbosity") <= 2)
        solver = ps.SchedulingSolver(problem=pb, verbosity=P.int("verbosity"))  # any verbosity
        sol = solver.solve()
        if case.get("again") and is_solution(sol):
            sol = solver.find_another_solution()
        return dict(pb=pb, tasks=tasks, res=res, solver=solver, sol=sol)

    def clauses(self, P, ctx, case):
        sol, pb, tasks = ctx["sol"], ctx["pb"], ctx["tasks"]
        out = []
        if not is_solution(sol):
            out.append(Clause("state[no solution object without a sat answer]", z3.BoolVal(sol is False), props=("C11",), kind="state"))
            if P.symbolic and not case.get("again"):
                # C05: `no solution` is only reported on unsat / unknown, and unsat is about exactly what initialize() stacked
                G = ctx["solver"]._solver
                out.append(Clause("post[False is returned only when z3 does not answer sat]", z3.BoolVal(G.last != z3.sat), props=("C05",), kind="sound"))
                if G.last == z3.unsat:
                    out.append(Clause("post[the infeasibility verdict is about the problem's constraint system, nothing more]", And(*G.unsat_facts[-1]) == And(*G.stack()), props=("C05",), kind="sound"))
            return out
        hz = T(sol.horizon)
        C11, C01, C02, C06 = [], [], [], []
        out.append(Clause("state[one report per task, under its name]", z3.BoolVal(list(sol.tasks.keys()) == [t.name for t in tasks]), props=("C11",), kind="state"))
        for i, t in enumerate(tasks):
            ts = sol.tasks[t.name]
            s, e, d = T(ts.start), T(ts.end), T(ts.duration)
            sch = T(ts.scheduled)
            if not t.optional:
                C11.append(sch)
            C11.append(Implies(sch, e - s == d))
            C11.append(Implies(sch, hz >= e))
            # C01 on the report
            tm = [s >= 0, e <= hz, e - s == d]
            cls = type(t).__name__
            if cls == "FixedDurationTask":
                tm.append(d == T(t.duration))
            elif cls == "ZeroDurationTask":
                tm.append(d == 0)
            else:
                tm.append(d >= T(t.min_duration))
            if pb.horizon is not None:
                tm.append(hz == T(pb.horizon))
            C01.append(Implies(sch, And(*tm)))
            # calendar times
            if case["cal"] != "none":
                dt = T(us_of(pb.delta_time))
                t0 = T(us_of(pb.start_time)) if case["cal"] == "delta+start" else z3.IntVal(0)
                try:
                    cal = And(T(us_of(ts.start_time)) == t0 + s * dt, T(us_of(ts.duration_time)) == d * dt, T(us_of(ts.end_time)) == t0 + e * dt)
                except TypeError:  # a field that is not a calendar value
                    cal = z3.BoolVal(False)
                C11.append(Implies(sch, cal))
            # assignments <-> assigned resources
            names = list(ts.assigned_resources)
            C11.append(z3.BoolVal(len(set(names)) == len(names)))
            listed_by = [rn for rn, rs in sol.resources.items() if any(a[0] == t.name for a in rs.assignments)]
            C11.append(z3.BoolVal(set(names) == set(listed_by)))
            if case["req"] == "none":
                C11.append(z3.BoolVal(names == []))
            # not scheduled => no assignment at all
            C06.append(Implies(Not(sch), z3.BoolVal(names == [] and listed_by == [])))
            # the assignment interval is the one the requirement implies
            for rn, rs in sol.resources.items():
                for a in rs.assignments:
                    if a[0] != t.name:
                        continue
                    bs, be = T(a[1]), T(a[2])
                    if case["req"] in ("static", "select", "cumulative", "cumulative+worker"):
                        C02.append(Implies(sch, And(bs == s, be == e)))
                    elif case["req"] == "delayed":
                        C02.append(Implies(sch, And(bs == s + T(P.int("delay_in")), be == e - T(P.int("early_out")))))
                    elif case["req"] == "dynamic":
                        C02.append(Implies(sch, And(s <= bs, bs <= be, be <= e)))
            # a scheduled task with a requirement reports it
            if case["req"] in ("static", "delayed", "dynamic"):
                C02.append(Implies(sch, z3.BoolVal(names == ["w"])))
            elif case["req"] == "select":
                C02.append(Implies(sch, z3.BoolVal(len(names) >= 1 and set(names) <= {"w", "w2"})))
            elif case["req"] == "cumulative":
                C02.append(Implies(sch, z3.BoolVal(names == ["cw"])))
            elif case["req"] == "cumulative+worker":
                C02.append(Implies(sch, z3.BoolVal(sorted(names) == ["cw", "w"])))
        # cumulative workers are reported under their own name only
        if case["req"] == "cumulative":
            C11.append(z3.BoolVal(set(sol.resources.keys()) == {"cw"}))
        elif case["req"] == "cumulative+worker":
            C11.append(z3.BoolVal(set(sol.resources.keys()) == {"cw", "w"}))
        elif case["req"] == "select":
            C11.append(z3.BoolVal(set(sol.resources.keys()) == {"w", "w2"}))
        out.append(Clause("report[self-consistent]", And(*C11), props=("C11",), kind="equals", bounded=self.bounded))
        out.append(Clause("report[task timing holds on the returned solution]", And(*C01), props=("C01",), kind="sound", bounded=self.bounded))
        out.append(Clause("report[assignment intervals are the ones the requirements imply]", And(*C02) if C02 else z3.BoolVal(True), props=("C02", "C11"), kind="sound", bounded=self.bounded))
        out.append(Clause("report[unscheduled tasks carry no assignment]", And(*C06), props=("C06", "C11"), kind="sound", bounded=self.bounded))
        return out

    def sentinels(self, P, ctx, case):
        sol = ctx["sol"]
        if not is_solution(sol):
            return []
        ts = sol.tasks[ctx["tasks"][0].name]
        return [Clause("sentinel[first task starts at 0]", T(ts.start) == 0, props=("C11", "C01", "C02", "C06"), kind="sound")]


def _report_native_search(case, params, ob):
    """real library: the case's problem on small concrete instances, every schedule reached by solve() and repeated
    find_another_solution(): each report must be self-consistent (a task lists a resource exactly when the resource
    lists an assignment for it; a task that is not scheduled lists nothing)"""
    import io, contextlib, warnings
    from psvc import runner
    from psvc.contract import Params

    if not case.get("again"):
        return {"confirmed": False, "observation": {"reason": "single-solution case: replayed with pins only"}}
    ps = runner.native_ps()
    con = BuildSolution()
    tried = 0
    for H in sorted({int(params.get("H") or 3), 3, 4}):
        vals = dict(params)
        vals.update(H=H)
        for k in list(vals):
            if k.endswith("_dur") or k.endswith("_min"):
                vals[k] = max(1, min(int(vals[k] or 1), 2))
        for i in range(len(case["ts"])):
            vals.setdefault(f"t{i+1}_dur", 1)
            vals.setdefault(f"t{i+1}_min", 1)
        import processscheduler.base as base

        base.active_problem = None
        P = Params(vals)
        with contextlib.redirect_stdout(io.StringIO()), warnings.catch_warnings():
            warnings.simplefilter("ignore")
            try:
                c1 = dict(case)
                c1.pop("again")
                ctx = con.scenario(ps, P, c1)
            except Exception:  # noqa
                continue
            sol, solver, n = ctx["sol"], ctx["solver"], 0
            seen = []
            while is_solution(sol) and n < 40:
                n += 1
                for tn, ts in sol.tasks.items():
                    listed_by = sorted(rn for rn, rs in sol.resources.items() if any(a[0] == tn for a in rs.assignments))
                    names = sorted(ts.assigned_resources)
                    if names != listed_by or (not ts.scheduled and names):
                        return {"confirmed": True, "observation": {"parameters": vals, "solution_number": n, "task": tn, "scheduled": ts.scheduled, "assigned_resources": list(ts.assigned_resources), "resources_listing_an_assignment_for_it": listed_by, "earlier_solutions": seen}}
                seen.append({tn: (ts.start, ts.end, ts.scheduled, list(ts.assigned_resources)) for tn, ts in sol.tasks.items()})
                sol = solver.find_another_solution()
        tried += 1
    return {"confirmed": False, "observation": {"instances_enumerated": tried}}


BuildSolution.native_search = staticmethod(_report_native_search)
