"""Contracts on processscheduler/task_constraint.py (C03, C05, C06, C18).

Meanings are written from docs/task_constraints.md and the C03 statement:

  TaskStartAt/EndAt          start = value / end = value
  TaskStartAfter/EndBefore   start >=|> value / end <=|< value      (lax | strict)
  TaskPrecedence             rel(kind)(end_before + offset, start_after), offset >= 0
  TasksStartSynced/EndSynced equal starts / ends
  TasksDontOverlap           [s1,e1) and [s2,e2) disjoint
  TasksContiguous            in start order every scheduled task starts where the previous one ends
  Unordered/OrderedTaskGroup every listed task inside the window; ordered: rel(kind) between consecutive
  ScheduleNTasksInTimeIntervals  cmp(kind)(#{t : exists I. within(t, I)}, n)
each binding only when the tasks it names are scheduled.
"""
import itertools

import z3

from psvc.contract import Contract, Clause, register, T, And, Or, Not, Implies, If, asserted, assertions_of
from psvc import spec
from contracts.task import make_task, TASK_CLASSES

KINDS6 = [(c, o) for c in TASK_CLASSES for o in (False, True)]


def assume_valid_task(P, cls, tag, vdt=("min",)):
    if cls == "FixedDurationTask":
        P.assume(P.int(f"{tag}_dur") >= 1)
    elif cls == "VariableDurationTask":
        if "min" in vdt:
            P.assume(P.int(f"{tag}_min") >= 0)
        if "max" in vdt:
            P.assume(P.int(f"{tag}_max") >= 1)


def dated_kw(case, i):
    """release date and due date of the i-th task of a `dated` case: "soft" -- every due date may be missed;
    "mixed" -- hard and soft due dates alternate"""
    d = case.get("dated")
    if not d:
        return {}
    return dict(release=True, due=True, deadline=(d == "mixed" and i % 2 == 0))


def valid_placement(t, k, hz, H):
    """user-level validity of one task's placement (C01 meaning; an unscheduled task sits at the
    library's conventional point -k with zero duration -- auxiliary from the user's point of view)"""
    s = spec.sched(t)
    if not t.optional:
        return spec.task_timing(t, hz, H)
    pp = spec.parking(t)
    if pp is None:
        # no single conventional point: the library's own rule for a task that is not scheduled is the placement rule
        return If(s, spec.task_timing(t, hz, H), And(*t.get_z3_assertions()))
    un = [t._start == pp, t._end == pp]
    if type(t).__name__ == "VariableDurationTask":
        un.append(t._duration == 0)
    return If(s, spec.task_timing(t, hz, H), And(*un))


class TCBase(Contract):
    """scenario: a problem with symbolic horizon, n tasks of the case's classes, the constraint, initialize()"""

    default_kind = None  # the documented default of the constraint's `kind` (case kind="default": argument left out)

    def kind(self, case):
        return self.default_kind if case.get("kind") == "default" else case.get("kind")

    def kind_kw(self, case):
        return {} if case.get("kind") == "default" else {"kind": case["kind"]}

    ntasks = 1
    props = ("C03", "C05", "C06")
    cls_name = None
    inlines = (
        "constraint.Constraint.__init__",
        "constraint.Constraint.set_z3_assertions",
        "base.NamedUIDObject.append_z3_assertion",
        "problem.SchedulingProblem.add_constraint",
        "solver.SchedulingSolver.initialize",
    )

    def extra_cases(self, tier):
        return [{}]

    def task_combos(self, tier):
        return list(itertools.product(KINDS6, repeat=self.ntasks))

    def dated_combos(self, tier):
        """task mixes that are also run with release dates and due dates (soft or hard) on every task: "whatever
        else the problem contains" includes what the tasks themselves declare"""
        combos = self.task_combos(tier)
        n = len(combos[0]) if combos else 0
        if n == 0:
            return []
        base = [("FixedDurationTask", False), ("VariableDurationTask", True), ("FixedDurationTask", True)]
        return [(tuple(base[i % 3] for i in range(n)), "soft"), (tuple(base[(i + 2) % 3] for i in range(n)), "mixed")]

    def cases(self, tier):
        out = []
        for combo in self.task_combos(tier):
            for extra in self.extra_cases(tier):
                d = {f"t{i+1}": f"{c[0][:1]}{'o' if c[1] else 'm'}" for i, c in enumerate(combo)}
                d.update(extra)
                out.append(d)
        for combo, dated in self.dated_combos(tier):
            for extra in self.extra_cases(tier):
                d = {f"t{i+1}": f"{c[0][:1]}{'o' if c[1] else 'm'}" for i, c in enumerate(combo)}
                d.update(extra)
                d["dated"] = dated
                out.append(d)
        return out

    @staticmethod
    def _decode(code):
        cls = {"F": "FixedDurationTask", "Z": "ZeroDurationTask", "V": "VariableDurationTask"}[code[0]]
        return cls, code[1] == "o"

    def build_tasks(self, ps, P, case):
        tasks = []
        n = len([k for k in case if k[0] == "t" and k[1:].isdigit()])
        for i in range(n):
            cls, opt = self._decode(case[f"t{i+1}"])
            assume_valid_task(P, cls, f"t{i+1}")
            tasks.append(make_task(ps, P, cls, f"t{i+1}", optional=opt, **dated_kw(case, i)))
        return tasks

    def scenario(self, ps, P, case):
        P.assume(P.int("H") >= 1)
        pb = ps.SchedulingProblem(name="pb", horizon=P.int("H"))
        tasks = self.build_tasks(ps, P, case)
        c = self.build_constraint(ps, P, case, tasks)
        solver = ps.SchedulingSolver(problem=pb)
        solver.initialize()
        return dict(pb=pb, tasks=tasks, c=c, solver=solver)

    # --- to be provided
    def build_constraint(self, ps, P, case, tasks):
        raise NotImplementedError

    def meaning(self, P, case, tasks):
        raise NotImplementedError

    def wrong_meaning(self, P, case, tasks):
        return None

    def complete_hyps(self, P, case, tasks):
        return []

    def aux_witness(self, P, ctx, case):
        return []

    complete_regions = None
    sound_regions = None

    def clauses(self, P, ctx, case):
        pb, tasks, c, solver = ctx["pb"], ctx["tasks"], ctx["c"], ctx["solver"]
        A = asserted(solver)
        hz, H = pb._horizon, pb.horizon
        M = self.meaning(P, case, tasks)
        out = [
            Clause("state[registered, not created from assertion]", z3.BoolVal(pb.constraints.get(c.name) is c and c._created_from_assertion is False), props=("C03",), kind="state"),
            Clause("sound", M, hyps=A, props=("C03",), kind="sound", bounded=self.bounded, regions=self.sound_regions and self.sound_regions(P, case, tasks)),
        ]
        # completeness: every placement that is valid for each task and satisfies the documented
        # relation is admitted by what initialize() asserts (auxiliary unknowns by witness)
        valid = [valid_placement(t, i + 1, hz, H) for i, t in enumerate(tasks)] + [hz >= 0, hz <= T(H)]
        goal = And(*A)
        wit = self.aux_witness(P, ctx, case)
        if wit:
            goal = z3.substitute(goal, *wit)
        regions = self.complete_regions(P, case, tasks) if self.complete_regions else None
        out.append(
            Clause("complete", goal, hyps=valid + [M] + self.complete_hyps(P, case, tasks), props=("C05", "C06"), kind="complete", bounded=self.bounded, regions=regions)
        )
        return out

    def sentinels(self, P, ctx, case):
        # must be refuted: "the asserted set is contradictory" (vacuity guard)
        return [Clause("sentinel[false]", z3.BoolVal(False), hyps=asserted(ctx["solver"]), props=("C03",), kind="sound")]


def both(tasks):
    return And(*[spec.sched(t) for t in tasks])


# ------------------------------------------------------------------------------ single task constraints
@register
class TaskStartAt(TCBase):
    target = "task_constraint.TaskStartAt.__init__"
    ntasks = 1

    def build_constraint(self, ps, P, case, tasks):
        return ps.TaskStartAt(task=tasks[0], value=P.int("value"))

    def meaning(self, P, case, tasks):
        return Implies(both(tasks), tasks[0]._start == T(P.int("value")))

    def wrong_meaning(self, P, case, tasks):
        return Implies(both(tasks), tasks[0]._end == T(P.int("value")) + 1)


@register
class TaskEndAt(TCBase):
    target = "task_constraint.TaskEndAt.__init__"
    ntasks = 1

    def build_constraint(self, ps, P, case, tasks):
        return ps.TaskEndAt(task=tasks[0], value=P.int("value"))

    def meaning(self, P, case, tasks):
        return Implies(both(tasks), tasks[0]._end == T(P.int("value")))

    def wrong_meaning(self, P, case, tasks):
        return Implies(both(tasks), tasks[0]._start == T(P.int("value")))


@register
class TaskStartAfter(TCBase):
    target = "task_constraint.TaskStartAfter.__init__"
    ntasks = 1
    default_kind = "lax"

    def extra_cases(self, tier):
        return [{"kind": "lax"}, {"kind": "strict"}, {"kind": "default"}]

    def build_constraint(self, ps, P, case, tasks):
        return ps.TaskStartAfter(task=tasks[0], value=P.int("value"), **self.kind_kw(case))

    def meaning(self, P, case, tasks):
        s, v = tasks[0]._start, T(P.int("value"))
        return Implies(both(tasks), s >= v if self.kind(case) == "lax" else s > v)

    def wrong_meaning(self, P, case, tasks):
        s, v = tasks[0]._start, T(P.int("value"))
        return Implies(both(tasks), s > v if self.kind(case) == "lax" else s > v + 1)


@register
class TaskEndBefore(TCBase):
    target = "task_constraint.TaskEndBefore.__init__"
    ntasks = 1
    default_kind = "lax"

    def extra_cases(self, tier):
        return [{"kind": "lax"}, {"kind": "strict"}, {"kind": "default"}]

    def build_constraint(self, ps, P, case, tasks):
        return ps.TaskEndBefore(task=tasks[0], value=P.int("value"), **self.kind_kw(case))

    def meaning(self, P, case, tasks):
        e, v = tasks[0]._end, T(P.int("value"))
        return Implies(both(tasks), e <= v if self.kind(case) == "lax" else e < v)

    def wrong_meaning(self, P, case, tasks):
        e, v = tasks[0]._end, T(P.int("value"))
        return Implies(both(tasks), e < v if self.kind(case) == "lax" else e < v - 1)


# ------------------------------------------------------------------------------ two task constraints
@register
class TaskPrecedence(TCBase):
    target = "task_constraint.TaskPrecedence.__init__"
    ntasks = 2
    props = ("C03", "C05", "C06", "C18")

    default_kind = "lax"

    def extra_cases(self, tier):
        # "default": neither kind nor offset is given -- documented defaults: lax, no offset
        return [{"kind": k} for k in ("lax", "strict", "tight", "default")]

    def offset(self, P, case):
        return z3.IntVal(0) if case["kind"] == "default" else T(P.int("offset"))

    def build_constraint(self, ps, P, case, tasks):
        if case["kind"] == "default":
            return ps.TaskPrecedence(task_before=tasks[0], task_after=tasks[1])
        return ps.TaskPrecedence(task_before=tasks[0], task_after=tasks[1], offset=P.int("offset"), kind=case["kind"])

    def raises(self, P, case):
        return [("ValidationError", self.offset(P, case) < 0)]

    def meaning(self, P, case, tasks):
        return Implies(both(tasks), spec.rel_kind(self.kind(case), tasks[0]._end + self.offset(P, case), tasks[1]._start))

    def wrong_meaning(self, P, case, tasks):
        return Implies(both(tasks), spec.rel_kind(self.kind(case), tasks[0]._end + self.offset(P, case) + 1, tasks[1]._start))


@register
class PrecedenceBetweenGroups(Contract):
    """TaskPrecedence whose operands are task groups (the fields accept them): every scheduled member of the group
    before ends (plus the offset) no later than / strictly before every scheduled member of the group (or the task)
    after starts.  The group's own start / end unknowns are auxiliary."""

    target = "task_constraint.TaskPrecedence.__init__"
    inlines = TCBase.inlines + ("task_constraint.TaskGroup.__init__", "task_constraint.UnorderedTaskGroup.__init__", "task_constraint.OrderedTaskGroup.__init__")
    props = ("C03", "C05")
    bounded = "groups of 2 tasks (one may be optional); a group or a single task after; all integers symbolic"

    def cases(self, tier):
        out = []
        for window in ("none", "length"):
            for after in ("task", "group"):
                for kind in ("lax", "strict"):
                    out.append(dict(window=window, after=after, kind=kind))
        return out

    def scenario(self, ps, P, case):
        P.assume(P.int("H") >= 1)
        pb = ps.SchedulingProblem(name="pb", horizon=P.int("H"))
        for n in ("a1", "a2", "b1", "b2"):
            P.assume(P.int(f"{n}_dur") >= 1)
        a1 = ps.FixedDurationTask(name="a1", duration=P.int("a1_dur"))
        a2 = ps.FixedDurationTask(name="a2", duration=P.int("a2_dur"), optional=True)
        b1 = ps.FixedDurationTask(name="b1", duration=P.int("b1_dur"))
        kw = {}
        if case["window"] == "length":
            P.assume(P.int("len") >= 0)
            kw["time_interval_length"] = P.int("len")
        ga = ps.UnorderedTaskGroup(list_of_tasks=[a1, a2], **kw)
        tasks = [a1, a2, b1]
        if case["after"] == "group":
            b2 = ps.FixedDurationTask(name="b2", duration=P.int("b2_dur"))
            tasks.append(b2)
            after = ps.OrderedTaskGroup(list_of_tasks=[b1, b2])
            after_members = [b1, b2]
        else:
            after = b1
            after_members = [b1]
        P.assume(P.int("offset") >= 0)
        c = ps.TaskPrecedence(task_before=ga, task_after=after, offset=P.int("offset"), kind=case["kind"])
        solver = ps.SchedulingSolver(problem=pb)
        solver.initialize()
        return dict(pb=pb, tasks=tasks, before=[a1, a2], after=after_members, c=c, solver=solver, window=case["window"])

    def clauses(self, P, ctx, case):
        pb = ctx["pb"]
        A = asserted(ctx["solver"])
        off = T(P.int("offset"))
        cs = []
        for m in ctx["before"]:
            for n in ctx["after"]:
                rel = (m._end + off <= n._start) if case["kind"] == "lax" else (m._end + off < n._start)
                cs.append(Implies(And(spec.sched(m), spec.sched(n)), rel))
        if case["after"] == "group":
            b1, b2 = ctx["after"]
            cs.append(b1._end <= b2._start)  # the ordered group after: its members in order
        if case["window"] == "length":
            L = T(P.int("len"))
            for x in ctx["before"]:
                for y in ctx["before"]:
                    cs.append(Implies(And(spec.sched(x), spec.sched(y)), y._end - x._start <= L))
        M = And(*cs)
        out = [Clause("sound[every member of the group before precedes every member after]", M, hyps=A, props=("C03",), kind="sound", bounded=self.bounded)]
        hz, H = pb._horizon, pb.horizon
        valid = [valid_placement(t, i + 1, hz, H) for i, t in enumerate(ctx["tasks"])] + [hz >= 0, hz <= T(H)]
        aux = fresh_consts(A, ctx["tasks"], pb)
        goal = z3.Exists(aux, And(*A)) if aux else And(*A)
        out.append(Clause("complete[a schedule in which the members are in that order is admitted]", goal, hyps=valid + [M], props=("C05",), kind="complete", bounded=self.bounded))
        return out

    def sentinels(self, P, ctx, case):
        return [Clause("sentinel[false]", z3.BoolVal(False), hyps=asserted(ctx["solver"]), props=("C03", "C05"), kind="sound")]


@register
class TasksStartSynced(TCBase):
    target = "task_constraint.TasksStartSynced.__init__"
    ntasks = 2

    def build_constraint(self, ps, P, case, tasks):
        return ps.TasksStartSynced(task_1=tasks[0], task_2=tasks[1])

    def meaning(self, P, case, tasks):
        return Implies(both(tasks), tasks[0]._start == tasks[1]._start)

    def wrong_meaning(self, P, case, tasks):
        return Implies(both(tasks), tasks[0]._end == tasks[1]._end)


@register
class TasksEndSynced(TCBase):
    target = "task_constraint.TasksEndSynced.__init__"
    ntasks = 2

    def build_constraint(self, ps, P, case, tasks):
        return ps.TasksEndSynced(task_1=tasks[0], task_2=tasks[1])

    def meaning(self, P, case, tasks):
        return Implies(both(tasks), tasks[0]._end == tasks[1]._end)

    def wrong_meaning(self, P, case, tasks):
        return Implies(both(tasks), tasks[0]._start == tasks[1]._start)


@register
class TasksDontOverlap(TCBase):
    target = "task_constraint.TasksDontOverlap.__init__"
    ntasks = 2

    def build_constraint(self, ps, P, case, tasks):
        return ps.TasksDontOverlap(task_1=tasks[0], task_2=tasks[1])

    def meaning(self, P, case, tasks):
        a, b = tasks
        return Implies(both(tasks), spec.disjoint(a._start, a._end, b._start, b._end))

    def complete_hyps(self, P, case, tasks):
        # docs: "task_1 ends before task_2 is started or the opposite". Two zero-length tasks at one
        # instant satisfy both alternatives at once; the documentation does not say whether that counts,
        # so completeness is only claimed away from that corner (soundness is claimed everywhere).
        a, b = tasks
        return [Not(And(a._start == a._end, b._start == b._end, a._start == b._start))]

    def wrong_meaning(self, P, case, tasks):
        a, b = tasks
        return Implies(both(tasks), a._end <= b._start)


# ------------------------------------------------------------------------------ list constraints (bounded shapes)
class ListBase(TCBase):
    sizes_quick = (2, 3)
    sizes_thorough = (2, 3, 4)

    def task_combos(self, tier):
        sizes = self.sizes_quick if tier == "quick" else self.sizes_thorough
        out = []
        for n in sizes:
            if n == 2:
                out.extend(itertools.product(KINDS6, repeat=2))
            else:
                # representative mixes for larger shapes
                reps = [("FixedDurationTask", False), ("VariableDurationTask", True), ("ZeroDurationTask", False), ("FixedDurationTask", True)]
                out.append(tuple(reps[:n]) if n <= 4 else tuple(reps))
                out.append(tuple([("FixedDurationTask", False)] * n))
                out.append(tuple([("VariableDurationTask", False)] * n))
                out.append(tuple([("FixedDurationTask", True)] * (n - 1) + [("VariableDurationTask", False)]))
        return out


@register
class TasksContiguous(ListBase):
    target = "task_constraint.TasksContiguous.__init__"
    inlines = TCBase.inlines + ("util.sort_no_duplicates",)
    bounded = "lists of 2..3 tasks (quick) / 2..4 (thorough); all integers symbolic"

    def build_constraint(self, ps, P, case, tasks):
        return ps.TasksContiguous(list_of_tasks=tasks)

    def meaning(self, P, case, tasks):
        """for scheduled tasks of positive length: if j is the next scheduled task after i in start order
        then j starts where i ends (zero-length tasks: the documentation does not say; not claimed)"""
        cs = []
        n = len(tasks)
        pos = [And(spec.sched(t), t._end > t._start) for t in tasks]
        for i in range(n):
            for j in range(n):
                if i == j:
                    continue
                between = [And(pos[k], tasks[i]._start < tasks[k]._start, tasks[k]._start < tasks[j]._start) for k in range(n) if k not in (i, j)]
                cs.append(
                    Implies(And(pos[i], pos[j], tasks[i]._start < tasks[j]._start, Not(Or(*between))), tasks[j]._start == tasks[i]._end)
                )
                # a chain: no two scheduled tasks start together
                cs.append(Implies(And(pos[i], pos[j]), tasks[i]._start != tasks[j]._start))
        # the statement is about scheduled tasks only; with zero-length tasks in the list nothing is claimed
        allpos = And(*[Implies(spec.sched(t), t._end > t._start) for t in tasks])
        return Implies(allpos, And(*cs))

    def complete_hyps(self, P, case, tasks):
        # completeness is claimed for lists whose scheduled tasks have positive length and pairwise
        # distinct starts (contiguity itself forces that)
        return [And(*[Implies(spec.sched(t), t._end > t._start) for t in tasks])]

    def aux_witness(self, P, ctx, case):
        return None  # existential auxiliaries (sorted copies): see clauses()

    def clauses(self, P, ctx, case):
        out = super().clauses(P, ctx, case)
        # completeness with existential sorted copies is left to the solver (no closed-form witness):
        # replace the goal by Exists(aux, And(A))
        pb, tasks, c, solver = ctx["pb"], ctx["tasks"], ctx["c"], ctx["solver"]
        A = asserted(solver)
        aux = fresh_consts(A, tasks, pb)
        for cl in out:
            if cl.kind == "complete" and aux:
                cl.goal = z3.Exists(aux, And(*A))
        return out

    def wrong_meaning(self, P, case, tasks):
        return tasks[0]._end == tasks[1]._start


def fresh_consts(A, tasks, pb, extra_known=()):
    """the auxiliary unknowns of an assertion set: every constant that is not a task / horizon / parameter unknown"""
    from psvc.runner import _consts_in_order

    # the user-level unknowns are taken from the objects themselves (whatever the library calls its z3 constants);
    # extra_known may give names or z3 constants
    known_ids = {pb._horizon.get_id()}
    for t in tasks:
        for attr in ("_start", "_end", "_duration", "_scheduled"):
            v = getattr(t, attr, None)
            if isinstance(v, z3.ExprRef):
                known_ids.add(v.get_id())
    known_names = set()
    for k in extra_known:
        if isinstance(k, z3.ExprRef):
            known_ids.add(k.get_id())
        else:
            known_names.add(k)
    out = []
    for c in _consts_in_order(A):
        n = c.decl().name()
        if c.get_id() in known_ids or n in known_names or n.startswith("P_"):
            continue
        out.append(c)
    return out


class GroupBase(ListBase):
    bounded = "lists of 2..3 tasks (quick) / 2..4 (thorough); all integers symbolic"
    ordered = False
    default_kind = "lax"

    def extra_cases(self, tier):
        wins = [{"window": "interval"}, {"window": "length"}, {"window": "none"}]
        if self.ordered:
            return [dict(w, kind=k) for w in wins for k in ("lax", "strict", "tight")] + [dict(window="none", kind="default")]
        return wins

    def build_constraint(self, ps, P, case, tasks):
        kw = dict(list_of_tasks=tasks)
        if case["window"] == "interval":
            P.assume(P.int("lo") >= 0)
            kw["time_interval"] = (P.int("lo"), P.int("hi"))
        elif case["window"] == "length":
            P.assume(P.int("len") >= 0)
            kw["time_interval_length"] = P.int("len")
        if self.ordered:
            kw.update(self.kind_kw(case))
            return ps.OrderedTaskGroup(**kw)
        return ps.UnorderedTaskGroup(**kw)

    def meaning(self, P, case, tasks):
        cs = []
        sch = [spec.sched(t) for t in tasks]
        if case["window"] == "interval":
            lo, hi = T(P.int("lo")), T(P.int("hi"))
            for t, s in zip(tasks, sch):
                cs.append(Implies(s, And(lo <= t._start, t._end <= hi)))
        elif case["window"] == "length":
            L = T(P.int("len"))
            for a, sa in zip(tasks, sch):
                for b, sb in zip(tasks, sch):
                    cs.append(Implies(And(sa, sb), b._end - a._start <= L))
        if self.ordered:
            for i in range(len(tasks) - 1):
                cs.append(Implies(And(sch[i], sch[i + 1]), spec.rel_kind(self.kind(case), tasks[i]._end, tasks[i + 1]._start)))
        return And(*cs)

    def clauses(self, P, ctx, case):
        out = super().clauses(P, ctx, case)
        pb, tasks, c, solver = ctx["pb"], ctx["tasks"], ctx["c"], ctx["solver"]
        A = asserted(solver)
        aux = fresh_consts(A, tasks, pb)
        anyopt = any(self._decode(case[f"t{i+1}"])[1] for i in range(len(tasks)))
        for cl in out:
            if cl.kind == "complete" and aux:
                cl.goal = z3.Exists(aux, And(*A))
                cl.regions = {}
                if case["window"] == "none":
                    cl.regions["no window given"] = z3.BoolVal(True)
                if anyopt:
                    cl.regions["an optional member is left out"] = Not(both(tasks))
                if case["window"] == "none" and anyopt:
                    cl.regions = {"no window given": z3.BoolVal(True)}
        return out

    def wrong_meaning(self, P, case, tasks):
        return tasks[0]._start == tasks[1]._start


@register
class UnorderedTaskGroup(GroupBase):
    lifts = True  # element-wise meaning: holds for every list length once the loops are independent (contracts/loops.py)
    target = "task_constraint.UnorderedTaskGroup.__init__"
    inlines = TCBase.inlines + ("task_constraint.TaskGroup.__init__",)
    ordered = False


@register
class OrderedTaskGroup(GroupBase):
    lifts = True  # element-wise meaning: holds for every list length once the loops are independent (contracts/loops.py)
    target = "task_constraint.OrderedTaskGroup.__init__"
    inlines = TCBase.inlines + ("task_constraint.TaskGroup.__init__",)
    ordered = True


@register
class ScheduleNTasksInTimeIntervals(ListBase):
    lifts = True  # element-wise meaning: holds for every list length once the loops are independent (contracts/loops.py)
    target = "task_constraint.ScheduleNTasksInTimeIntervals.__init__"
    bounded = "2..3 tasks x 1..2 intervals (quick) / up to 4 tasks x 3 intervals (thorough); all integers symbolic"
    default_kind = "exact"

    def extra_cases(self, tier):
        ni = (1, 2) if tier == "quick" else (1, 2, 3)
        # "default": kind left out -- documented default: exactly n
        return [{"kind": k, "nint": n} for k in ("exact", "min", "max") for n in ni] + [{"kind": "default", "nint": 1}]

    def task_combos(self, tier):
        base = [
            (("FixedDurationTask", False), ("FixedDurationTask", False)),
            (("FixedDurationTask", False), ("VariableDurationTask", True)),
            (("ZeroDurationTask", False), ("FixedDurationTask", True)),
            (("FixedDurationTask", False), ("VariableDurationTask", False), ("FixedDurationTask", True)),
        ]
        if tier == "thorough":
            base.append(tuple([("FixedDurationTask", False)] * 4))
        return base

    def intervals(self, P, case):
        return [(P.int(f"lo{i}"), P.int(f"hi{i}")) for i in range(case["nint"])]

    def build_constraint(self, ps, P, case, tasks):
        ivs = self.intervals(P, case)
        for lo, hi in ivs:
            P.assume(lo >= 0)  # the timeline starts at 0
            P.assume(lo < hi)
        # the documented use is a list of separate intervals
        for (l1, h1), (l2, h2) in itertools.combinations(ivs, 2):
            P.assume(h1 <= l2)
        return ps.ScheduleNTasksInTimeIntervals(list_of_tasks=tasks, nb_tasks_to_schedule=P.int("n"), list_of_time_intervals=ivs, **self.kind_kw(case))

    def inside(self, P, case, t):
        return And(spec.sched(t), Or(*[spec.within(t._start, t._end, lo, hi) for lo, hi in self.intervals(P, case)]))

    def meaning(self, P, case, tasks):
        cnt = spec.count([self.inside(P, case, t) for t in tasks])
        return spec.cmp_kind(self.kind(case), cnt, P.int("n"))

    def clauses(self, P, ctx, case):
        out = super().clauses(P, ctx, case)
        pb, tasks, c, solver = ctx["pb"], ctx["tasks"], ctx["c"], ctx["solver"]
        A = asserted(solver)
        aux = fresh_consts(A, tasks, pb)
        for cl in out:
            if cl.kind == "complete" and aux:
                cl.goal = z3.Exists(aux, And(*A))
            if cl.kind == "sound" and self.kind(case) in ("exact", "max"):
                cnt = spec.count([self.inside(P, case, t) for t in tasks])
                cl.regions = {"more tasks inside the intervals than counted": cnt > T(P.int("n"))}
        return out

    def wrong_meaning(self, P, case, tasks):
        cnt = spec.count([self.inside(P, case, t) for t in tasks])
        return cnt == T(P.int("n")) + 1


# ------------------------------------------------------------------------------ optional-task rules (C06, C18)
class OptRuleBase(TCBase):
    props = ("C06", "C18", "C05")

    def clauses(self, P, ctx, case):
        out = super().clauses(P, ctx, case)
        for cl in out:
            if cl.kind == "sound":
                cl.props = ("C06",)
            if cl.kind == "state":
                cl.props = ("C06",)
        return out

    def sentinels(self, P, ctx, case):
        return [Clause("sentinel[false]", z3.BoolVal(False), hyps=asserted(ctx["solver"]), props=("C06",), kind="sound")]


@register
class OptionalTaskForceSchedule(OptRuleBase):
    target = "task_constraint.OptionalTaskForceSchedule.__init__"
    ntasks = 1

    def extra_cases(self, tier):
        return [{"to_be": True}, {"to_be": False}]

    def build_constraint(self, ps, P, case, tasks):
        return ps.OptionalTaskForceSchedule(task=tasks[0], to_be_scheduled=case["to_be"])

    def raises(self, P, case):
        return [("TypeError", z3.BoolVal(not self._decode(case["t1"])[1]))]

    def meaning(self, P, case, tasks):
        return spec.sched(tasks[0]) == z3.BoolVal(case["to_be"])

    def wrong_meaning(self, P, case, tasks):
        return spec.sched(tasks[0]) != z3.BoolVal(case["to_be"])


@register
class OptionalTaskConditionSchedule(OptRuleBase):
    target = "task_constraint.OptionalTaskConditionSchedule.__init__"
    ntasks = 2

    def task_combos(self, tier):
        return [(a, b) for a in KINDS6 for b in (("FixedDurationTask", False), ("VariableDurationTask", False))]

    def cond(self, P, tasks):
        return tasks[1]._start >= T(P.int("value"))

    def build_constraint(self, ps, P, case, tasks):
        return ps.OptionalTaskConditionSchedule(task=tasks[0], condition=self.cond(P, tasks))

    def raises(self, P, case):
        return [("TypeError", z3.BoolVal(not self._decode(case["t1"])[1]))]

    def meaning(self, P, case, tasks):
        return spec.sched(tasks[0]) == self.cond(P, tasks)

    def wrong_meaning(self, P, case, tasks):
        return spec.sched(tasks[0])


@register
class OptionalTasksDependency(OptRuleBase):
    target = "task_constraint.OptionalTasksDependency.__init__"
    ntasks = 2

    def build_constraint(self, ps, P, case, tasks):
        return ps.OptionalTasksDependency(task_1=tasks[0], task_2=tasks[1])

    def raises(self, P, case):
        return [("TypeError", z3.BoolVal(not self._decode(case["t2"])[1]))]

    def meaning(self, P, case, tasks):
        return spec.sched(tasks[0]) == spec.sched(tasks[1])

    def wrong_meaning(self, P, case, tasks):
        return Not(spec.sched(tasks[1]))


@register
class ForceScheduleNOptionalTasks(OptRuleBase):
    lifts = True  # element-wise meaning: holds for every list length once the loops are independent (contracts/loops.py)
    target = "task_constraint.ForceScheduleNOptionalTasks.__init__"
    bounded = "lists of 2..3 tasks (quick) / 2..4 (thorough); the count n is symbolic"

    def task_combos(self, tier):
        out = list(itertools.product(KINDS6, repeat=2))
        out.append((("FixedDurationTask", True), ("VariableDurationTask", True), ("ZeroDurationTask", True)))
        out.append((("FixedDurationTask", True), ("VariableDurationTask", False), ("ZeroDurationTask", True)))
        if tier == "thorough":
            out.append(tuple([("FixedDurationTask", True)] * 4))
        return out

    def extra_cases(self, tier):
        # "default": neither the count nor the kind is given -- declared defaults: exactly one task
        return [{"kind": k} for k in ("exact", "min", "max", "default")]

    def n(self, P, case):
        return z3.IntVal(1) if case["kind"] == "default" else T(P.int("n"))

    def build_constraint(self, ps, P, case, tasks):
        if case["kind"] == "default":
            return ps.ForceScheduleNOptionalTasks(list_of_optional_tasks=tasks)
        return ps.ForceScheduleNOptionalTasks(list_of_optional_tasks=tasks, nb_tasks_to_schedule=P.int("n"), kind=case["kind"])

    def raises(self, P, case):
        n = len([k for k in case if k[0] == "t" and k[1:].isdigit()])
        mandatory = any(not self._decode(case[f"t{i+1}"])[1] for i in range(n))
        out = [("ValidationError", self.n(P, case) <= 0)]
        # a mandatory task in the list is rejected (whenever the count itself is acceptable)
        out.append(("TypeError", And(z3.BoolVal(mandatory), self.n(P, case) > 0)))
        return out

    def meaning(self, P, case, tasks):
        return spec.cmp_kind("exact" if case["kind"] == "default" else case["kind"], spec.count([spec.sched(t) for t in tasks]), self.n(P, case))

    def wrong_meaning(self, P, case, tasks):
        return spec.count([spec.sched(t) for t in tasks]) == self.n(P, case) + 1
