"""C14 -- meaning is independent of names, declaration order and earlier problems.

The statement is relational (a problem vs. its renamed / permuted twin).  It is decided here by relational
obligations over *two symbolic runs of the real code in one scenario*, on a bounded family of problem
shapes with all integers symbolic:

  renaming      the constraint system of the renamed problem is the renamed constraint system
                (constants paired by position; each pair must be related by the name bijection; formulas equal)
  permutation   every schedule admitted by one declaration order is admitted by the other, up to the values of
                the auxiliary unknowns (placement of unscheduled tasks, busy intervals of workers that are not
                held, sorted copies ...):   A1 => exists aux2 . A2   and   A2 => exists aux1 . A1
  earlier problems   building and initialising unrelated problems first (even with the same element names)
                does not change the constraint system of a later problem

z3's behaviour on alpha-equivalent inputs (same verdict, same optimum) is trusted.
"""
import itertools
import re

import z3

from psvc.contract import Contract, Clause, register, T, And, Or, Not, Implies, If, asserted
from psvc import spec, sym
from psvc.runner import _consts_in_order


def build(ps, P, names, order, shape, pbname="pb"):
    """one problem of the family. names: dict role -> element name; order: permutation spec; returns (pb, solver, objects)"""
    pb = ps.SchedulingProblem(name=pbname, horizon=P.int("H"))
    objs = {}

    def mk_task(role):
        if role == "a":
            objs["a"] = ps.FixedDurationTask(name=names["a"], duration=P.int("da"))
        elif role == "o":
            objs["o"] = ps.FixedDurationTask(name=names["o"], duration=P.int("do"), optional=True)
        elif role == "s":
            if shape == "twins":
                # a look-alike of task a: same class, same duration, same worker -- only an indicator tells them apart
                objs["s"] = ps.FixedDurationTask(name=names["s"], duration=P.int("da"))
            else:
                objs["s"] = ps.VariableDurationTask(name=names["s"], min_duration=P.int("ms"), optional=(shape == "distance3"))

    def mk_worker(role):
        objs[role] = ps.Worker(name=names[role])

    for r in order["tasks"]:
        mk_task(r)
    for r in order["workers"]:
        mk_worker(r)
    a, o, s = objs["a"], objs["o"], objs["s"]
    W, V = objs["W"], objs["V"]
    # requirements (fixed order: they are not a declaration stage of their own)
    if shape == "distance3":
        # two optional tasks (their parking points depend on which is declared first); the optional task o holds W
        # directly, the mandatory task a chooses between W and V
        o.add_required_resource(W)
        s.add_required_resource(V)
        sel = ps.SelectWorkers(list_of_workers=[W, V], nb_workers_to_select=1)
        objs["sel"] = sel
        a.add_required_resource(sel)
    else:
        a.add_required_resource(W)
    if shape == "distance3":
        pass
    elif shape in ("select", "distance"):
        sel = ps.SelectWorkers(list_of_workers=[W, V], nb_workers_to_select=1)
        objs["sel"] = sel
        o.add_required_resource(sel)
        s.add_required_resource(W)
    elif shape == "select2":
        # two selections with names of their own, over the same two workers
        sel1 = ps.SelectWorkers(name=names["sel1"], list_of_workers=[W, V], nb_workers_to_select=1)
        sel2 = ps.SelectWorkers(name=names["sel2"], list_of_workers=[W, V], nb_workers_to_select=1)
        objs["sel"], objs["sels"] = sel1, [sel1, sel2]
        o.add_required_resource(sel1)
        s.add_required_resource(sel2)
    elif shape == "distance2":
        # the optional task holds W directly, another task chooses between W and V
        sel = ps.SelectWorkers(list_of_workers=[W, V], nb_workers_to_select=1)
        objs["sel"] = sel
        o.add_required_resource(W)
        s.add_required_resource(sel)
    else:
        o.add_required_resource(V)
        s.add_required_resource(W)

    def mk_constraint(role):
        if role == "prec" and shape == "twins":
            ps.TaskEndBefore(name=names["prec"], task=o, value=P.int("eb"))  # (no constraint names the look-alike tasks)
        elif role == "prec":
            ps.TaskPrecedence(name=names["prec"], task_before=a, task_after=s, offset=P.int("off"))
        elif role == "start":
            ps.TaskStartAfter(name=names["start"], task=o, value=P.int("v"))
        elif role == "extra":
            if shape in ("distance", "distance2", "distance3"):
                ps.ResourceTasksDistance(name=names["extra"], resource=W, distance=P.int("dist"), mode="min")
            elif shape == "group":
                ps.UnorderedTaskGroup(name=names["extra"], list_of_tasks=[a, s], time_interval_length=P.int("glen"))
            elif shape == "workload":
                ps.WorkLoad(name=names["extra"], resource=W, dict_time_intervals_and_bound={(P.int("lo"), P.int("lo") + 5): P.int("bound")})
                # a second one, on the other worker, over the same window
                ps.WorkLoad(name=names["extra"] + "2", resource=V, dict_time_intervals_and_bound={(P.int("lo"), P.int("lo") + 5): P.int("bound2")})
            elif shape == "twins":
                ps.TaskStartAfter(name=names["extra"], task=o, value=P.int("sa"), kind="strict")
            else:
                ps.TasksDontOverlap(name=names["extra"], task_1=a, task_2=o)

    for r in order["constraints"]:
        mk_constraint(r)
    if shape == "twins":
        ind = ps.IndicatorFromMathExpression(name=names["ind"], expression=s._end)
        ps.IndicatorBounds(name=names["extra"] + "b", indicator=ind, upper_bound=P.int("bound"))
    if shape == "indicator":
        ps.IndicatorResourceUtilization(resource=W)
        ps.IndicatorFromMathExpression(name=names["ind"], expression=a._start + s._end)
    solver = ps.SchedulingSolver(problem=pb)
    solver.initialize()
    return pb, solver, objs


def preconditions(P):
    P.assume(P.int("H") >= 1)
    P.assume(P.int("da") >= 1)
    P.assume(P.int("do") >= 1)
    P.assume(P.int("ms") >= 0)
    P.assume(P.int("off") >= 0)
    P.assume(P.int("dist") >= 0)
    P.assume(P.int("lo") >= 0)
    P.assume(P.int("glen") >= 0)


NAMES_1 = dict(a="a", o="o", s="s", W="W", V="V", prec="cprec", start="cstart", extra="cextra", ind="ind", sel1="sel1", sel2="sel2")
NAMES_2 = dict(a="alpha", o="omega", s="sigma", W="Worker9", V="v", prec="c1", start="c2", extra="c3", ind="myindicator", sel1="pick", sel2="choice")
ORDER_0 = dict(tasks=("a", "o", "s"), workers=("W", "V"), constraints=("prec", "start", "extra"))
SHAPES = ("plain", "select", "select2", "workload", "indicator", "distance", "distance2", "distance3", "group", "twins")
# names may be shared across kinds (each kind has its own registry): a constraint, an indicator or a worker
# called like a task
NAMES_3 = dict(a="a", o="o", s="s", W="a", V="o", prec="a", start="o", extra="s", ind="a", sel1="a", sel2="o")
# collision-free names whose concatenations coincide: "L" + "_" + "1_x" == "L_1" + "_" + "x"
NAMES_4 = dict(a="1_x", o="x", s="y", W="L", V="L_1", prec="p_1", start="p", extra="1", ind="L_1_x", sel1="1_x", sel2="x")


def norm(name):
    return re.sub(r"[0-9a-f]{8,}|\d{8,}", "#", name)


@register
class RenamingInvariance(Contract):
    target = "base.NamedUIDObject.__init__"
    inlines = ("problem.SchedulingProblem.add_task", "solver.SchedulingSolver.initialize")
    props = ("C14",)
    bounded = "problem family: 3 tasks, 2 workers, 3 constraints (+ selection / workload / indicators); all integers symbolic"

    def cases(self, tier):
        return [dict(shape=s, to=t) for s in SHAPES for t in ("fresh names", "names shared across kinds", "names whose concatenations coincide")]

    def scenario(self, ps, P, case):
        preconditions(P)
        pb1, s1, _ = build(ps, P, NAMES_1, ORDER_0, case["shape"])
        pb2, s2, _ = build(ps, P, self.target_names(case), ORDER_0, case["shape"])
        return dict(A1=asserted(s1), A2=asserted(s2))

    @staticmethod
    def target_names(case):
        return {"fresh names": NAMES_2, "names shared across kinds": NAMES_3, "names whose concatenations coincide": NAMES_4}[case["to"]]

    def clauses(self, P, ctx, case):
        A1, A2 = ctx["A1"], ctx["A2"]
        c1, c2 = _consts_in_order(A1), _consts_in_order(A2)
        c1 = [c for c in c1 if not c.decl().name().startswith("P_")]
        c2 = [c for c in c2 if not c.decl().name().startswith("P_")]
        ok = len(A1) == len(A2) and len(c1) == len(c2)
        why = ""
        subs = []
        # the bijection on element names, applied to a constant's name token-wise
        N2 = self.target_names(case)
        ren = {NAMES_1[k]: N2[k] for k in NAMES_1}
        # names containing "_" cannot be recognised token-wise in a constant's name: there only the bijection
        # between the two problems' unknowns (same number, formulas equal under the pairing) is required
        by_shape = case["to"] != "names whose concatenations coincide"
        if ok:
            for x, y in zip(c1, c2):
                n1, n2 = x.decl().name(), y.decl().name()
                mapped = "_".join(ren.get(tok, tok) for tok in n1.split("_"))
                mapped = re.sub(r"\(([^)]*)\)", lambda m: "(" + ren.get(m.group(1), m.group(1)) + ")", mapped)
                if x.sort() != y.sort() or (by_shape and norm(mapped) != norm(n2) and not ("!" in n1 and "!" in n2)):
                    ok, why = False, f"{n1} -> {mapped} but the renamed problem uses {n2}"
                    break
                subs.append((x, y))
        same = z3.BoolVal(False)
        if ok:
            same = And(*[z3.substitute(f, *subs) == g for f, g in zip(A1, A2)])
        return [Clause("relational[the renamed problem's constraint system is the renamed constraint system]", And(z3.BoolVal(ok), same), props=("C14",), kind="equals", bounded=self.bounded, note=why)]


def user_link(objs1, objs2, A1, A2):
    """R(sigma1, sigma2): the two assignments describe the same user-level schedule. Unknowns of the second
    run are primed; flags and the horizon are shared."""
    primes = {}

    def prime(c):
        n = c.decl().name()
        if n not in primes:
            primes[n] = z3.Const(n + "'", c.sort())
        return primes[n]

    shared = {"horizon"}
    for r in ("a", "o", "s"):
        shared.add(f"{objs1[r].name}_scheduled")
    for c in _consts_in_order(A2):
        n = c.decl().name()
        if n.startswith("P_") or n in shared or z3.is_bool(c):
            continue
        prime(c)
    link = []
    for r in ("a", "o", "s"):
        t1 = objs1[r]
        sch = spec.sched(t1)
        for v in ("_start", "_end", "_duration"):
            if hasattr(t1, v):
                x = getattr(t1, v)
                if x.decl().name() in primes:
                    link.append(Implies(sch, primes[x.decl().name()] == x))
    for wr in ("W", "V"):
        w1 = objs1[wr]
        for t1, (bs, be) in w1._busy_intervals.items():
            for x in (bs, be):
                if x.decl().name() in primes:
                    # a held busy interval (non-negative) is the same in both
                    link.append(Implies(And(spec.sched(t1), x >= 0), primes[x.decl().name()] == x))
    return primes, link


@register
class DeclarationOrder(Contract):
    target = "problem.SchedulingProblem.add_task"
    inlines = ("task.Task.set_assertions", "problem.SchedulingProblem.get_unique_negative_integer", "solver.SchedulingSolver.initialize")
    props = ("C14",)
    bounded = RenamingInvariance.bounded

    def cases(self, tier):
        out = []
        perms = [
            dict(tasks=("o", "a", "s"), workers=("W", "V"), constraints=("prec", "start", "extra")),
            dict(tasks=("s", "o", "a"), workers=("V", "W"), constraints=("extra", "start", "prec")),
            dict(tasks=("a", "s", "o"), workers=("V", "W"), constraints=("start", "prec", "extra")),
        ]
        if tier == "thorough":
            for j, to in enumerate((("a", "s", "o"), ("o", "s", "a"), ("s", "a", "o"))):
                perms.append(dict(tasks=to, workers=("W", "V"), constraints=("cextra", "cprec", "cstart")[::1] if False else ("extra", "prec", "start")))
        for shape in SHAPES:
            for i, p in enumerate(perms):
                out.append(dict(shape=shape, perm=i, order=p))
        return out

    def scenario(self, ps, P, case):
        preconditions(P)
        pb1, s1, o1 = build(ps, P, NAMES_1, ORDER_0, case["shape"])
        pb2, s2, o2 = build(ps, P, NAMES_1, case["order"], case["shape"])
        return dict(A1=asserted(s1), A2=asserted(s2), o1=o1, o2=o2)

    def clauses(self, P, ctx, case):
        A1, A2, o1, o2 = ctx["A1"], ctx["A2"], ctx["o1"], ctx["o2"]
        out = []
        for tag, (X, Y, ox, oy) in (("1=>2", (A1, A2, o1, o2)), ("2=>1", (A2, A1, o2, o1))):
            if "sel" in ox:
                # the selection flags are user-level decisions: the same in both runs (paired by selection and worker)
                fl = [(sy._selection_dict[oy[w]], sx._selection_dict[ox[w]]) for sx, sy in zip(ox.get("sels", [ox["sel"]]), oy.get("sels", [oy["sel"]])) for w in ("W", "V")]
                Y = [z3.substitute(f, *fl) for f in Y]
            primes, link = user_link(ox, oy, X, Y)
            subs = [(z3.Const(n, p.sort()), p) for n, p in primes.items()]
            Yp = [z3.substitute(f, *subs) for f in Y]
            goal = z3.Exists(list(primes.values()), And(*link, *Yp)) if primes else And(*Yp)
            regions = None
            if case["shape"] in ("distance", "distance2", "distance3"):
                regions = {"an optional task is left out": Not(spec.sched(ox["o"]))}
            out.append(Clause(f"relational[{tag}: every schedule admitted in one declaration order is admitted in the other]", goal, hyps=X, props=("C14",), kind="complete", bounded=self.bounded, regions=regions))
        return out


@register
class EarlierProblems(Contract):
    target = "problem.SchedulingProblem.__init__"
    inlines = ("base.BaseModelWithJson.__init__", "solver.SchedulingSolver.__init__", "solver.SchedulingSolver.initialize")
    props = ("C14",)
    diff = "eval"
    bounded = RenamingInvariance.bounded

    def cases(self, tier):
        return [dict(shape=s, junk=j) for s in SHAPES for j in ("same_names", "other", "solved")]

    def scenario(self, ps, P, case):
        preconditions(P)
        pb0, s0, _ = build(ps, P, NAMES_1, ORDER_0, case["shape"])
        # unrelated problems built (and initialised / configured differently) in between
        if case["junk"] == "same_names":
            j = ps.SchedulingProblem(name="pb", horizon=3)
            ja = ps.FixedDurationTask(name="a", duration=2, optional=True)
            jw = ps.Worker(name="W")
            ja.add_required_resource(jw)
            ps.TaskStartAt(name="cprec", task=ja, value=1)
            ps.SchedulingSolver(problem=j, debug=True, parallel=True, random_values=True).initialize()
        elif case["junk"] == "other":
            j = ps.SchedulingProblem(name="other")
            for i in range(3):
                ps.ZeroDurationTask(name=f"z{i}", optional=True)
            sw = ps.SelectWorkers(list_of_workers=[ps.Worker(name="x"), ps.Worker(name="y")])
            ps.FixedDurationTask(name="f", duration=1).add_required_resource(sw)
            ps.SchedulingSolver(problem=j, logics="QF_IDL", verbosity=2).initialize()
        else:
            j = ps.SchedulingProblem(name="solved", horizon=4)
            jt = ps.FixedDurationTask(name="s", duration=1)
            ps.ObjectiveMinimizeMakespan()
            ps.SchedulingSolver(problem=j, optimizer="optimize", max_time=1).initialize()
        n0 = len(sym.current().events) if P.symbolic else 0
        pb1, s1, _ = build(ps, P, NAMES_1, ORDER_0, case["shape"])
        events = list(sym.current().events[n0:]) if P.symbolic else []
        return dict(A0=asserted(s0), A1=asserted(s1), pb1=pb1, events=events)

    def clauses(self, P, ctx, case):
        from psvc.runner import equivalent_modulo_fresh
        from contracts.solver_api import options_set, ALL_OPTIONS

        ok, why = equivalent_modulo_fresh(ctx["A0"], ctx["A1"])
        out = [Clause("relational[a problem built after unrelated problems has the constraint system it has on its own]", z3.BoolVal(ok is True), props=("C14",), kind="equals", bounded=self.bounded, note=str(why)[:300])]
        pb1 = ctx["pb1"]
        out.append(Clause("frame[fresh registries: only the problem's own elements]", z3.BoolVal(sorted(pb1.tasks) == ["a", "o", "s"] and sorted(pb1.workers) == ["V", "W"]), props=("C14",), kind="frame"))
        if P.symbolic:
            out.append(Clause("frame[the later solver resets every global z3 option]", z3.BoolVal(options_set(ctx["events"]) == ALL_OPTIONS), props=("C14",), kind="frame"))
        return out
