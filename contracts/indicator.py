"""Contracts on indicator.py / objective.py / indicator_constraint.py / function.py (C08).

`equals` contracts: what initialize() asserts implies  indicator variable = Def(schedule), with Def from
docs/indicator.md and the C08 statement ("to within integer rounding" = the floor of the exact value):

  utilisation        floor(100 * sum of held busy lengths / horizon)
  nb tasks assigned  number of held busy intervals
  cost               sum over held busy intervals of the integral of the cost function (constant: c * len;
                     linear: trapezoid (c(bs) + c(be)) * len / 2), the variable part floored once
  idle               sum of the gaps between consecutive held busy intervals
  tardiness          sum over scheduled tasks of priority * max(0, end - due)
  earliness          sum over scheduled tasks of max(0, due - end)
  nb tardy           number of scheduled tasks with end > due
  max lateness       max over tasks of end - due
  flow time / weighted completion / weighted start   sums over scheduled tasks
  smallest / greatest start   min / max over tasks
"""
import itertools

import z3

from psvc.contract import Contract, Clause, register, T, And, Or, Not, Implies, If, asserted, assertions_of
from psvc import spec
from contracts.task import make_task
from contracts.task_constraint import assume_valid_task, dated_kw
from contracts.resource import busy, decode


class IndBase(Contract):
    props = ("C08", "C05", "C07", "C06")
    task_sets = (("Fm",), ("Fm", "Vo"), ("Fo", "Fm"), ("Vm", "Fm", "Fo"))
    horizons = ("int",)
    with_worker = True
    with_due = False
    inlines = ("indicator.Indicator.__init__", "solver.SchedulingSolver.initialize", "base.NamedUIDObject.append_z3_assertion")

    def extra_cases(self, tier):
        return [{}]

    thorough_horizons = ()
    thorough_task_sets = (("Fm", "Fm", "Vo", "Fo"),)

    def cases(self, tier):
        hs = tuple(self.horizons) + (tuple(self.thorough_horizons) if tier == "thorough" else ())
        tss = tuple(self.task_sets) + (tuple(self.thorough_task_sets) if tier == "thorough" else ())
        out = [dict(ts=ts, horizon=h, **e) for ts in tss for h in hs for e in self.extra_cases(tier)]
        # the same with release dates and (soft / hard) due dates declared on the tasks
        ts = self.task_sets[1] if len(self.task_sets) > 1 else self.task_sets[0]
        for e in self.extra_cases(tier):
            out.append(dict(ts=ts, horizon=hs[0], dated="mixed", **e))
        return out

    def make_worker(self, ps, P, case):
        return ps.Worker(name="w")

    def scenario(self, ps, P, case):
        if case["horizon"] == "int":
            P.assume(P.int("H") >= 1)
            pb = ps.SchedulingProblem(name="pb", horizon=P.int("H"))
        elif case["horizon"] is None:
            pb = ps.SchedulingProblem(name="pb")
        else:
            pb = ps.SchedulingProblem(name="pb", horizon=case["horizon"])
        w = self.make_worker(ps, P, case) if self.with_worker else None
        tasks = []
        for i, code in enumerate(case["ts"]):
            cls, opt = decode(code)
            assume_valid_task(P, cls, f"t{i+1}")
            if self.with_due:
                P.assume(P.int(f"t{i+1}_due") >= 0)
                P.assume(P.int(f"t{i+1}_prio") >= 0)
            dk = dated_kw(case, i)
            if self.with_due:
                dk = dict(due="int", deadline=dk.get("deadline", False), **({"release": True} if dk else {}))
            t = make_task(ps, P, cls, f"t{i+1}", optional=opt, **dk)
            if self.with_due and case.get("prio") != "default":
                t.priority = P.int(f"t{i+1}_prio")
            if w is not None:
                if case.get("assign") == "select":
                    # an alternative assignment: the task chooses between the worker and another one
                    t.add_required_resource(ps.SelectWorkers(list_of_workers=[w, ps.Worker(name=f"other{i+1}")], nb_workers_to_select=1))
                else:
                    t.add_required_resource(w)
            tasks.append(t)
        ind = self.build(ps, P, case, pb, w, tasks)
        solver = ps.SchedulingSolver(problem=pb)
        solver.initialize()
        return dict(pb=pb, w=w, tasks=tasks, ind=ind, solver=solver, assign=case.get("assign"))

    def held(self, ctx):
        w = ctx["w"]
        units = [w] if type(w).__name__ == "Worker" else list(w._cumulative_workers)
        out = []
        for t in ctx["tasks"]:
            for u in units:
                bs, be = busy(u, t)
                # a unit of a cumulative worker / a worker chosen through a selection: held iff not parked in the past
                cond = spec.sched(t) if (len(units) == 1 and ctx.get("assign") != "select") else And(spec.sched(t), bs >= 0)
                out.append((t, cond, bs, be))
        return out

    def var(self, ctx):
        return ctx["ind"]._indicator_variable

    def clauses(self, P, ctx, case):
        A = asserted(ctx["solver"])
        D = self.definition(P, ctx, case)
        goal = D(self.var(ctx)) if callable(D) else self.var(ctx) == D
        pb = ctx["pb"]
        registered = any(v is ctx["ind"] for v in pb.indicators.values())
        out = [
            # (C06: with an optional task in the problem the definition counts scheduled tasks only -- a task that is
            # left out contributes to no indicator or objective)
            Clause("equals[indicator = definition on the schedule]", goal, hyps=A, props=("C08", "C06") if any(t.optional for t in ctx["tasks"]) else ("C08",), kind="equals", bounded=self.bounded, regions=self.regions(P, ctx, case)),
            Clause("state[registered with the problem]", z3.BoolVal(registered), props=("C08",), kind="state"),
        ]
        out += self.observer_clause(P, ctx, case, A)
        # C07: the incremental optimiser stops ("optimum found") as soon as the objective reaches a bound the
        # indicator declares -- a declared bound must therefore be a bound of the value on every schedule
        b = getattr(ctx["ind"], "bounds", None)
        if b is not None:
            v = self.var(ctx)
            lims = []
            if b[0] is not None:
                lims.append(v >= T(b[0]))
            if len(b) > 1 and b[1] is not None:
                lims.append(v <= T(b[1]))
            out.append(Clause("lemma[a declared bound of the indicator holds on every schedule]", And(*lims), hyps=A, props=("C07", "C08"), kind="lemma", bounded=self.bounded))
        return out

    def observer_clause(self, P, ctx, case, A):
        """C05: an indicator observes, it never forbids -- every valid schedule is admitted with *some* value of
        the indicator (and of the other auxiliary unknowns).  Claimed with a directly assigned plain worker, whose
        tasks have positive length."""
        from contracts.task_constraint import valid_placement, fresh_consts

        w = ctx.get("w")
        if ctx.get("assign") == "select" or (w is not None and type(w).__name__ != "Worker"):
            return []
        pb, tasks = ctx["pb"], ctx["tasks"]
        hz, H = pb._horizon, pb.horizon
        valid = [valid_placement(t, i + 1, hz, H) for i, t in enumerate(tasks)] + [hz >= 0]
        if H is not None:
            valid.append(hz <= T(H))
        rest, known = [], []
        if w is not None:
            for t in tasks:
                bs, be = busy(w, t)
                rest += [bs == t._start, be == t._end, Implies(spec.sched(t), t._end > t._start)]
                known += [bs, be]
            for a, b in itertools.combinations(tasks, 2):
                rest.append(Implies(And(spec.sched(a), spec.sched(b)), spec.disjoint(a._start, a._end, b._start, b._end)))
        aux = fresh_consts(A, tasks, pb, extra_known=known)
        goal = z3.Exists(aux, And(*A)) if aux else And(*A)
        D = self.definition(P, ctx, case)
        v = self.var(ctx)
        if not callable(D) and len(aux) == 1 and aux[0].eq(v):
            # the only auxiliary unknown is the indicator itself: its defined value is the witness
            goal = z3.substitute(And(*A), (v, T(D)))
        return [Clause("complete[the indicator never excludes a valid schedule]", goal, hyps=valid + rest, props=("C05",), kind="complete", bounded=self.bounded)]

    def regions(self, P, ctx, case):
        return None

    def sentinels(self, P, ctx, case):
        return [Clause("sentinel[false]", z3.BoolVal(False), hyps=asserted(ctx["solver"]), props=("C08",), kind="sound")]


@register
class Utilization(IndBase):
    target = "indicator.IndicatorResourceUtilization.__init__"
    # the horizon divides the busy time: a symbolic divisor is non-linear, so it is taken from a list
    horizons = (1, 3, 7, 10, 64, 100, 150, 200, None)
    thorough_horizons = (2, 5, 9, 11, 33, 99, 101, 128, 999, 1000)
    bounded = "horizon in {1,3,7,10,64,100,150,200} or not given; 1..3 tasks on the resource; other integers symbolic"

    def extra_cases(self, tier):
        return [{"res": "worker"}, {"res": "cumulative"}, {"res": "worker", "assign": "select"}]

    def cases(self, tier):
        out = super().cases(tier)
        out = [c for c in out if not (c["res"] == "cumulative" and len(c["ts"]) > 2)]
        return [c for c in out if not (c.get("assign") == "select" and (len(c["ts"]) > 2 or c["horizon"] not in (7, 100, None)))]

    def make_worker(self, ps, P, case):
        return ps.Worker(name="w") if case["res"] == "worker" else ps.CumulativeWorker(name="w", size=2)

    def build(self, ps, P, case, pb, w, tasks):
        return ps.IndicatorResourceUtilization(resource=w)

    def definition(self, P, ctx, case):
        busy_total = z3.Sum([If(c, be - bs, 0) for t, c, bs, be in self.held(ctx)])
        pb = ctx["pb"]
        H = T(pb.horizon) if pb.horizon is not None else pb._horizon
        n = 1 if case["res"] == "worker" else 2
        # percentage of the horizon the resource is busy (for a cumulative worker of size n: of n * horizon),
        # rounded down
        return lambda v: Implies(H > 0, And(v * H * n <= 100 * busy_total, 100 * busy_total < (v + 1) * H * n))

    def regions(self, P, ctx, case):
        if case["res"] == "cumulative":
            return {"cumulative worker": z3.BoolVal(True)}
        return None


@register
class NumberTasksAssigned(IndBase):
    lifts = True  # element-wise meaning: holds for every list length once the loops are independent (contracts/loops.py)
    target = "indicator.IndicatorNumberTasksAssigned.__init__"
    bounded = "1..3 tasks on the resource; all integers symbolic"

    def extra_cases(self, tier):
        return [{"res": "worker"}, {"res": "select"}]

    def scenario(self, ps, P, case):
        if case["res"] == "worker":
            return super().scenario(ps, P, case)
        P.assume(P.int("H") >= 1)
        pb = ps.SchedulingProblem(name="pb", horizon=P.int("H"))
        w, w2 = ps.Worker(name="w"), ps.Worker(name="w2")
        tasks, sels = [], []
        for i, code in enumerate(case["ts"]):
            cls, opt = decode(code)
            assume_valid_task(P, cls, f"t{i+1}")
            t = make_task(ps, P, cls, f"t{i+1}", optional=opt)
            sw = ps.SelectWorkers(list_of_workers=[w, w2])
            t.add_required_resource(sw)
            tasks.append(t)
            sels.append(sw)
        ind = ps.IndicatorNumberTasksAssigned(resource=w)
        solver = ps.SchedulingSolver(problem=pb)
        solver.initialize()
        return dict(pb=pb, w=w, tasks=tasks, ind=ind, solver=solver, sels=sels)

    def build(self, ps, P, case, pb, w, tasks):
        return ps.IndicatorNumberTasksAssigned(resource=w)

    def definition(self, P, ctx, case):
        if case["res"] == "select":
            return spec.count([And(spec.sched(t), sw._selection_dict[ctx["w"]]) for t, sw in zip(ctx["tasks"], ctx["sels"])])
        return spec.count([c for t, c, bs, be in self.held(ctx)])


@register
class ResourceCost(IndBase):
    lifts = True  # element-wise meaning: holds for every list length once the loops are independent (contracts/loops.py)
    target = "indicator.IndicatorResourceCost.__init__"
    inlines = IndBase.inlines + ("function.Function.__call__", "function.ConstantFunction.__init__", "function.LinearFunction.__init__", "function.PolynomialFunction.__init__")
    bounded = "1..3 tasks on the resource; cost coefficients and all integers symbolic"

    def extra_cases(self, tier):
        # "const_frac" / "linear_frac": non-integer coefficients (2.5 per period; x/2 + 3/2): the value is rounded down
        return [{"cost": c, "res": "worker"} for c in ("const", "const0", "const1", "linear", "poly2", "default", "const_frac", "linear_frac")] + [{"cost": "const", "res": "cumulative"}, {"cost": "default", "res": "cumulative"}] + [{"cost": c, "res": "worker", "assign": "select"} for c in ("const", "linear")]

    def cases(self, tier):
        return [c for c in super().cases(tier) if not ((c["res"] == "cumulative" or c.get("assign") == "select") and len(c["ts"]) > 2)]

    def make_worker(self, ps, P, case):
        c = case["cost"]
        if case["res"] == "cumulative":
            if c == "default":
                return ps.CumulativeWorker(name="w", size=2)  # no declared cost: costs nothing
            # the cost per period of a cumulative worker is split over its unit workers
            P.assume(P.int("c0") >= 0)
            return ps.CumulativeWorker(name="w", size=2, cost=ps.ConstantFunction(value=P.int("c0")))
        if c == "default":
            return ps.Worker(name="w")  # no declared cost: costs nothing
        if c == "const":
            f = ps.ConstantFunction(value=P.int("c0"))
        elif c == "const_frac":
            f = ps.ConstantFunction(value=2.5)
        elif c == "linear_frac":
            f = ps.LinearFunction(slope=0.5, intercept=1.5)
        elif c == "const0":
            f = ps.ConstantFunction(value=0)
        elif c == "const1":
            f = ps.ConstantFunction(value=1)
        elif c == "linear":
            f = ps.LinearFunction(slope=P.int("c1"), intercept=P.int("c0"))
        else:
            f = ps.PolynomialFunction(coefficients=[P.int("c2"), P.int("c1"), P.int("c0")])
        return ps.Worker(name="w", cost=f)

    def build(self, ps, P, case, pb, w, tasks):
        if case["cost"] == "linear":
            # through the objective that creates the indicator
            return ps.ObjectiveMinimizeResourceCost(list_of_resources=[w]).target
        return ps.IndicatorResourceCost(list_of_resources=[w])

    def cost_at(self, P, case, x):
        c = case["cost"]
        if c == "const":
            return T(P.int("c0"))
        if c in ("const0", "default"):
            return z3.IntVal(0)
        if c == "const1":
            return z3.IntVal(1)
        if c == "linear":
            return T(P.int("c1")) * x + T(P.int("c0"))
        return T(P.int("c2")) * x * x + T(P.int("c1")) * x + T(P.int("c0"))

    def definition(self, P, ctx, case):
        H = self.held(ctx)
        if case["cost"] == "default":
            return z3.IntVal(0)
        if case["res"] == "cumulative":
            # each unit worker costs its share per busy period; the shares add up to the declared cost
            units = list(ctx["w"]._cumulative_workers)
            tot = []
            for t in ctx["tasks"]:
                for u in units:
                    bs, be = busy(u, t)
                    tot.append(If(And(spec.sched(t), bs >= 0), T(u.cost.value) * (be - bs), 0))
            shares = z3.Sum([T(u.cost.value) for u in units]) == T(P.int("c0"))
            return lambda v: And(shares, v == z3.Sum(tot))
        if case["cost"] == "const_frac":
            L = z3.Sum([If(c, be - bs, 0) for t, c, bs, be in H])
            return lambda v: And(2 * v <= 5 * L, 5 * L < 2 * v + 2)  # v = floor(2.5 * busy time)
        if case["cost"] == "linear_frac":
            # trapezoids of c(x) = x/2 + 3/2:  sum (c(bs) + c(be)) * len / 2 = sum (bs + be + 6) * len / 4
            four = z3.Sum([If(c, (bs + be + 6) * (be - bs), 0) for t, c, bs, be in H])
            return lambda v: And(4 * v <= four, four < 4 * v + 4)
        if case["cost"].startswith("const"):
            return z3.Sum([If(c, self.cost_at(P, case, bs) * (be - bs), 0) for t, c, bs, be in H])
        twice = z3.Sum([If(c, (self.cost_at(P, case, bs) + self.cost_at(P, case, be)) * (be - bs), 0) for t, c, bs, be in H])
        return lambda v: And(2 * v <= twice, twice < 2 * v + 2)


@register
class ResourceIdle(IndBase):
    target = "indicator.IndicatorResourceIdle.__init__"
    inlines = IndBase.inlines + ("util.sort_no_duplicates",)
    task_sets = (("Fm", "Fm"), ("Fm", "Vo"), ("Fm", "Vm", "Fm"))
    bounded = "2..3 tasks on one worker; all integers symbolic"

    def extra_cases(self, tier):
        return [{}, {"assign": "select"}]

    def cases(self, tier):
        return [c for c in super().cases(tier) if not (c.get("assign") == "select" and len(c["ts"]) > 2)]

    def build(self, ps, P, case, pb, w, tasks):
        return ps.IndicatorResourceIdle(resource=w)

    def definition(self, P, ctx, case):
        H = self.held(ctx)
        gaps = []
        for i, (ta, ca, sa, ea) in enumerate(H):
            for j, (tb, cb, sb, eb) in enumerate(H):
                if i == j:
                    continue
                between = [And(ck, sa < sk, sk < sb) for k, (tk, ck, sk, ek) in enumerate(H) if k not in (i, j)]
                gaps.append(If(And(ca, cb, sa < sb, Not(Or(*between))), sb - ea, 0))
        pos = And(*[Implies(c, be > bs) for t, c, bs, be in H])
        return lambda v: Implies(pos, v == z3.Sum(gaps))


class DueBase(IndBase):
    with_due = True
    with_worker = False
    task_sets = (("Fm",), ("Fo",), ("Fm", "Vo"), ("Vm", "Fm", "Fo"), ("Zm", "Fm"))
    bounded = "1..3 tasks; due dates, priorities and all integers symbolic"
    listed = (False, True, "subset")  # no list (all tasks of the problem), every task listed, a strict subset listed

    def extra_cases(self, tier):
        return [{"listed": l} for l in self.listed]

    def cases(self, tier):
        return [c for c in super().cases(tier) if not (c.get("listed") == "subset" and len(c["ts"]) < 2)]

    def subject(self, tasks, case):
        """the tasks the indicator is about"""
        return list(tasks[:-1]) if case.get("listed") == "subset" else list(tasks)

    def prio(self, t, case):
        """the weight of a task: its declared priority, 1 when none is declared (documented default)"""
        return z3.IntVal(1) if case.get("prio") == "default" else T(t.priority)

    def regions(self, P, ctx, case):
        opt = [Not(spec.sched(t)) for t in ctx["tasks"] if t.optional]
        return {"an optional task is left out": Or(*opt)} if opt else None


@register
class Tardiness(DueBase):
    lifts = True  # element-wise meaning: holds for every list length once the loops are independent (contracts/loops.py)
    target = "indicator.IndicatorTardiness.__init__"

    def extra_cases(self, tier):
        return super().extra_cases(tier) + [{"listed": True, "prio": "default"}]

    def build(self, ps, P, case, pb, w, tasks):
        return ps.IndicatorTardiness(list_of_tasks=self.subject(tasks, case)) if case["listed"] else ps.IndicatorTardiness()

    def definition(self, P, ctx, case):
        return z3.Sum([If(spec.sched(t), self.prio(t, case) * spec.zmax(0, t._end - T(t.due_date)), 0) for t in self.subject(ctx["tasks"], case)])


@register
class Earliness(DueBase):
    lifts = True  # element-wise meaning: holds for every list length once the loops are independent (contracts/loops.py)
    target = "indicator.IndicatorEarliness.__init__"

    def build(self, ps, P, case, pb, w, tasks):
        return ps.IndicatorEarliness(list_of_tasks=self.subject(tasks, case)) if case["listed"] else ps.IndicatorEarliness()

    def definition(self, P, ctx, case):
        return z3.Sum([If(spec.sched(t), spec.zmax(0, T(t.due_date) - t._end), 0) for t in self.subject(ctx["tasks"], case)])


@register
class NumberOfTardyTasks(DueBase):
    lifts = True  # element-wise meaning: holds for every list length once the loops are independent (contracts/loops.py)
    target = "indicator.IndicatorNumberOfTardyTasks.__init__"

    def build(self, ps, P, case, pb, w, tasks):
        return ps.IndicatorNumberOfTardyTasks(list_of_tasks=self.subject(tasks, case)) if case["listed"] else ps.IndicatorNumberOfTardyTasks()

    def definition(self, P, ctx, case):
        return spec.count([And(spec.sched(t), t._end > T(t.due_date)) for t in self.subject(ctx["tasks"], case)])


@register
class MaximumLateness(DueBase):
    lifts = True  # element-wise meaning: holds for every list length once the loops are independent (contracts/loops.py)
    target = "indicator.IndicatorMaximumLateness.__init__"
    inlines = IndBase.inlines + ("util.get_maximum",)
    task_sets = (("Fm",), ("Fm", "Vm"), ("Vm", "Fm", "Zm"))

    def build(self, ps, P, case, pb, w, tasks):
        return ps.IndicatorMaximumLateness(list_of_tasks=self.subject(tasks, case)) if case["listed"] else ps.IndicatorMaximumLateness()

    def definition(self, P, ctx, case):
        ls = [t._end - T(t.due_date) for t in self.subject(ctx["tasks"], case)]
        return lambda v: And(Or(*[v == l for l in ls]), *[v >= l for l in ls])


@register
class BothTardinessIndicators(Contract):
    """every declared indicator is delivered under a name of its own"""

    target = "indicator.IndicatorNumberOfTardyTasks.__init__"
    props = ("C08",)

    def cases(self, tier):
        return [dict(pair=p) for p in (("IndicatorTardiness", "IndicatorNumberOfTardyTasks"), ("IndicatorTardiness", "IndicatorEarliness"), ("IndicatorNumberOfTardyTasks", "IndicatorMaximumLateness"))]

    def scenario(self, ps, P, case):
        pb = ps.SchedulingProblem(name="pb", horizon=10)
        t = ps.FixedDurationTask(name="t", duration=2, due_date=1, due_date_is_deadline=False)
        a = getattr(ps, case["pair"][0])()
        b = getattr(ps, case["pair"][1])()
        return dict(pb=pb, a=a, b=b)

    def clauses(self, P, ctx, case):
        return [Clause("state[two indicators are reported under two names]", z3.BoolVal(ctx["a"].name != ctx["b"].name), props=("C08",), kind="state")]


class SumObjBase(IndBase):
    """objective-created indicators (read back through the objective's target)"""

    with_worker = False
    task_sets = (("Fm",), ("Fo",), ("Fm", "Vo"), ("Vm", "Fm", "Fo"))
    bounded = "1..3 tasks; priorities and all integers symbolic"
    inlines = IndBase.inlines + ("objective.Objective.__init__", "indicator.IndicatorFromMathExpression.__init__")

    def extra_cases(self, tier):
        return [{}, {"listed": "subset"}]  # all the tasks of the problem / a strict subset given as list_of_tasks

    def cases(self, tier):
        return [c for c in super().cases(tier) if not (c.get("listed") == "subset" and len(c["ts"]) < 2)]

    def subject(self, tasks, case):
        return list(tasks[:-1]) if case.get("listed") == "subset" else list(tasks)

    def lot(self, tasks, case):
        return {"list_of_tasks": self.subject(tasks, case)} if case.get("listed") == "subset" else {}

    def scenario(self, ps, P, case):
        P.assume(P.int("H") >= 1)
        pb = ps.SchedulingProblem(name="pb", horizon=P.int("H"))
        tasks = []
        for i, code in enumerate(case["ts"]):
            cls, opt = decode(code)
            assume_valid_task(P, cls, f"t{i+1}")
            P.assume(P.int(f"t{i+1}_prio") >= 0)
            t = make_task(ps, P, cls, f"t{i+1}", optional=opt)
            t.priority = P.int(f"t{i+1}_prio")
            tasks.append(t)
        obj = self.build_objective(ps, P, case, tasks)
        solver = ps.SchedulingSolver(problem=pb)
        solver.initialize()
        return dict(pb=pb, w=None, tasks=tasks, ind=obj.target, obj=obj, solver=solver)

    def clauses(self, P, ctx, case):
        out = super().clauses(P, ctx, case)
        obj = ctx["obj"]
        out.append(Clause("state[objective targets the indicator variable, in the declared direction]", z3.BoolVal(obj._target is ctx["ind"]._indicator_variable or obj._target.eq(ctx["ind"]._indicator_variable)) if True else None, props=("C08",), kind="state"))
        return out


@register
class Flowtime(SumObjBase):
    lifts = True  # element-wise meaning: holds for every list length once the loops are independent (contracts/loops.py)
    target = "objective.ObjectiveMinimizeFlowtime.__init__"

    def build_objective(self, ps, P, case, tasks):
        return ps.ObjectiveMinimizeFlowtime(**self.lot(tasks, case))

    def definition(self, P, ctx, case):
        return z3.Sum([If(spec.sched(t), t._end, 0) for t in self.subject(ctx["tasks"], case)])


@register
class Priorities(SumObjBase):
    lifts = True  # element-wise meaning: holds for every list length once the loops are independent (contracts/loops.py)

    def extra_cases(self, tier):
        return [{}]  # (this objective has no list_of_tasks parameter: always every task of the problem)
    target = "objective.ObjectivePriorities.__init__"

    def build_objective(self, ps, P, case, tasks):
        return ps.ObjectivePriorities(**self.lot(tasks, case))

    def definition(self, P, ctx, case):
        return z3.Sum([If(spec.sched(t), t._end * T(t.priority), 0) for t in self.subject(ctx["tasks"], case)])


@register
class StartEarliest(SumObjBase):
    lifts = True  # element-wise meaning: holds for every list length once the loops are independent (contracts/loops.py)

    def extra_cases(self, tier):
        return [{}]  # (this objective has no list_of_tasks parameter: always every task of the problem)
    target = "objective.ObjectiveTasksStartEarliest.__init__"

    def build_objective(self, ps, P, case, tasks):
        return ps.ObjectiveTasksStartEarliest(**self.lot(tasks, case))

    def definition(self, P, ctx, case):
        return z3.Sum([If(spec.sched(t), t._start * T(t.priority), 0) for t in self.subject(ctx["tasks"], case)])


@register
class GreatestStart(SumObjBase):
    lifts = True  # element-wise meaning: holds for every list length once the loops are independent (contracts/loops.py)
    target = "objective.ObjectiveMinimizeGreatestStartTime.__init__"
    inlines = SumObjBase.inlines + ("util.get_maximum",)
    task_sets = (("Fm",), ("Fm", "Vm"), ("Vm", "Fm", "Zm"))

    def build_objective(self, ps, P, case, tasks):
        return ps.ObjectiveMinimizeGreatestStartTime(**self.lot(tasks, case))

    def definition(self, P, ctx, case):
        ss = [t._start for t in self.subject(ctx["tasks"], case)]
        return lambda v: And(Or(*[v == s for s in ss]), *[v >= s for s in ss])


@register
class StartLatest(SumObjBase):
    lifts = True  # element-wise meaning: holds for every list length once the loops are independent (contracts/loops.py)
    target = "objective.ObjectiveTasksStartLatest.__init__"
    inlines = SumObjBase.inlines + ("util.get_minimum",)
    task_sets = (("Fm",), ("Fm", "Vm"), ("Vm", "Fm", "Zm"))

    def build_objective(self, ps, P, case, tasks):
        return ps.ObjectiveTasksStartLatest(**self.lot(tasks, case))

    def definition(self, P, ctx, case):
        ss = [t._start for t in self.subject(ctx["tasks"], case)]
        return lambda v: And(Or(*[v == s for s in ss]), *[v <= s for s in ss])


@register
class MathExpressionAndConstraints(Contract):
    """IndicatorFromMathExpression, IndicatorTarget, IndicatorBounds"""

    target = "indicator.IndicatorFromMathExpression.__init__"
    inlines = ("indicator_constraint.IndicatorTarget.__init__", "indicator_constraint.IndicatorBounds.__init__")
    props = ("C08", "C05")

    def cases(self, tier):
        # expr "real": a real-valued expression (half of a sum of instants), "number": a plain non-integer number --
        # the (integer) indicator is the value rounded down
        return [dict(c=c) for c in ("none", "target", "lower", "upper", "both")] + [dict(c="none", expr="real"), dict(c="upper", expr="real"), dict(c="none", expr="number")]

    def scenario(self, ps, P, case):
        P.assume(P.int("H") >= 1)
        pb = ps.SchedulingProblem(name="pb", horizon=P.int("H"))
        P.assume(P.int("d1") >= 1)
        t1 = ps.FixedDurationTask(name="t1", duration=P.int("d1"))
        t2 = ps.VariableDurationTask(name="t2")
        if case.get("expr") == "real":
            expr = (t1._start + t2._end) * 0.5
        elif case.get("expr") == "number":
            expr = 2.5
        else:
            expr = t1._start * T(P.int("a")) + t2._end - T(P.int("b"))
        ind = ps.IndicatorFromMathExpression(name="mine", expression=expr)
        c = None
        if case["c"] == "target":
            c = ps.IndicatorTarget(indicator=ind, value=P.int("v"))
        elif case["c"] == "lower":
            c = ps.IndicatorBounds(indicator=ind, lower_bound=P.int("lo"))
        elif case["c"] == "upper":
            c = ps.IndicatorBounds(indicator=ind, upper_bound=P.int("hi"))
        elif case["c"] == "both":
            c = ps.IndicatorBounds(indicator=ind, lower_bound=P.int("lo"), upper_bound=P.int("hi"))
        solver = ps.SchedulingSolver(problem=pb)
        solver.initialize()
        return dict(pb=pb, ind=ind, expr=expr, solver=solver)

    def clauses(self, P, ctx, case):
        A = asserted(ctx["solver"])
        v = ctx["ind"]._indicator_variable
        if case.get("expr") == "real":
            two = [t for t in ctx["pb"].tasks.values()]
            tot = two[0]._start + two[1]._end
            goal = [2 * v <= tot, tot < 2 * v + 2]  # v = floor((t1.start + t2.end) / 2)
        elif case.get("expr") == "number":
            goal = [v == 2]
        else:
            goal = [v == ctx["expr"]]
        if case["c"] == "target":
            goal.append(v == T(P.int("v")))
        if case["c"] in ("lower", "both"):
            goal.append(v >= T(P.int("lo")))
        if case["c"] in ("upper", "both"):
            goal.append(v <= T(P.int("hi")))
        out = [Clause("equals[user expression; targets and bounds hold]", And(*goal), hyps=A, props=("C08",), kind="equals")]
        # completeness: every schedule whose indicator value meets the declared target / bounds is admitted
        from contracts.task_constraint import valid_placement

        pb = ctx["pb"]
        hz, H = pb._horizon, pb.horizon
        tasks = list(pb.tasks.values())
        valid = [valid_placement(t, i + 1, hz, H) for i, t in enumerate(tasks)] + [hz >= 0, hz <= T(H)]
        out.append(Clause("complete[a schedule meeting the target / bounds is admitted]", And(*A), hyps=valid + goal, props=("C05", "C08"), kind="complete"))
        return out

    def sentinels(self, P, ctx, case):
        return [Clause("sentinel[false]", z3.BoolVal(False), hyps=asserted(ctx["solver"]), props=("C08",), kind="sound")]


@register
class BufferLevelExtrema(Contract):
    """IndicatorMaxBufferLevel / IndicatorMinBufferLevel: the extremum of the buffer's level sequence"""

    target = "indicator.IndicatorMaxBufferLevel.__init__"
    inlines = ("indicator.IndicatorMinBufferLevel.__init__", "util.get_maximum", "util.get_minimum", "objective.ObjectiveMaximizeMaxBufferLevel.__init__", "objective.ObjectiveMinimizeMaxBufferLevel.__init__")
    props = ("C08",)
    bounded = "one buffer with 1..2 accessing tasks; quantities and levels symbolic"

    def cases(self, tier):
        return [dict(which=w, kind=k, acc=a, via=v) for w in ("max", "min") for k in ("nc", "c") for a in (("U",), ("L", "U")) for v in ("indicator", "objective") if not (w == "min" and v == "objective")]

    def scenario(self, ps, P, case):
        from contracts.buffer import make_buffer

        P.assume(P.int("H") >= 1)
        pb = ps.SchedulingProblem(name="pb", horizon=P.int("H"))
        b = make_buffer(ps, P, case["kind"], "b", init=True, final=False, bounds=False)
        for i, a in enumerate(case["acc"]):
            P.assume(P.int(f"t{i+1}_dur") >= 1)
            t = ps.FixedDurationTask(name=f"t{i+1}", duration=P.int(f"t{i+1}_dur"))
            P.assume(P.int(f"q{i+1}") >= 1)
            (ps.TaskUnloadBuffer if a == "U" else ps.TaskLoadBuffer)(task=t, buffer=b, quantity=P.int(f"q{i+1}"))
        if case["via"] == "objective":
            obj = (ps.ObjectiveMaximizeMaxBufferLevel if case["kind"] == "nc" else ps.ObjectiveMinimizeMaxBufferLevel)(buffer=b)
            ind = obj.target
        else:
            ind = ps.IndicatorMaxBufferLevel(buffer=b) if case["which"] == "max" else ps.IndicatorMinBufferLevel(buffer=b)
        solver = ps.SchedulingSolver(problem=pb)
        solver.initialize()
        return dict(pb=pb, b=b, ind=ind, solver=solver)

    def clauses(self, P, ctx, case):
        A = asserted(ctx["solver"])
        v = ctx["ind"]._indicator_variable
        ls = list(ctx["b"]._buffer_levels)
        if case["which"] == "max":
            want = And(Or(*[v == l for l in ls]), *[v >= l for l in ls])
        else:
            want = And(Or(*[v == l for l in ls]), *[v <= l for l in ls])
        return [Clause("equals[indicator = extremum of the buffer's levels]", want, hyps=A, props=("C08",), kind="equals", bounded=self.bounded)]

    def sentinels(self, P, ctx, case):
        return [Clause("sentinel[false]", z3.BoolVal(False), hyps=asserted(ctx["solver"]), props=("C08",), kind="sound")]
