"""Contracts on the public SchedulingSolver API (C07 wiring, C12, C13, C15, C19; C14 option frame).

The z3 solver is the ghost solver (psvc/ghost.py): every check() forks sat | unsat | unknown, a model is
an arbitrary assignment satisfying the stacked formulas, an unsat core an arbitrary subset of the tracked
names.  Base = what initialize() stacked."""
import itertools

import z3

from psvc.contract import Contract, Clause, register, T, And, Or, Not, Implies, If, asserted, assertions_of
from psvc import spec, sym, ghost
from psvc.sym import current
from contracts.solution import is_solution

ALL_OPTIONS = {"verbose", "unsat_core", "parallel.enable", "sat.threads", "smt.threads", "sat.random_seed", "smt.random_seed", "smt.arith.random_initial_value", "timeout"}


def small_problem(ps, P, optional=True, resources=True, name="pb"):
    P.assume(P.int("H") >= 1)
    pb = ps.SchedulingProblem(name=name, horizon=P.int("H"))
    P.assume(P.int("d1") >= 1)
    t1 = ps.FixedDurationTask(name="t1", duration=P.int("d1"))
    t2 = ps.VariableDurationTask(name="t2", optional=optional)
    if resources:
        w = ps.Worker(name="w")
        t1.add_required_resource(w)
        t2.add_required_resource(w)
    return pb, t1, t2


def any_verbosity(P):
    """the verbosity is a free parameter: what the solver prints on the way must not change what it computes"""
    P.assume(P.int("verbosity") >= 0)
    P.assume(P.int("verbosity") <= 2)
    return P.int("verbosity")


def ghost_of(solver):
    return solver._solver


def options_set(path_events):
    keys = set()
    for e in path_events:
        if e[0] == "set_option":
            keys.update(e[1].keys())
    return keys


# ------------------------------------------------------------------------------ C07 / C15 objective wiring
@register
class ObjectiveWiring(Contract):
    target = "solver.SchedulingSolver.create_objective"
    inlines = ("solver.SchedulingSolver.build_equivalent_weighted_objective", "solver.SchedulingSolver.initialize", "objective.Objective.__init__")
    props = ("C07", "C15")
    diff = "eval"

    def cases(self, tier):
        out = []
        for nobj in (1, 2):
            for direction in ("min", "max"):
                for optimizer in ("incremental", "optimize"):
                    for prio in ("pareto", "lex", "box", "weight"):
                        if optimizer == "incremental" and prio != "pareto":
                            continue
                        out.append(dict(nobj=nobj, dir=direction, optimizer=optimizer, prio=prio))
        # an objective declared without a weight counts once (declared default)
        out.append(dict(nobj=2, dir="min", optimizer="incremental", prio="pareto", default_w2=True))
        out.append(dict(nobj=2, dir="max", optimizer="optimize", prio="weight", default_w2=True))
        out.append(dict(nobj=2, dir="max", optimizer="incremental", prio="pareto", default_w2=True))
        out.append(dict(nobj=2, dir="min", optimizer="optimize", prio="weight", default_w2=True))
        return out

    def scenario(self, ps, P, case):
        pb, t1, t2 = small_problem(ps, P)
        kind = "minimize" if case["dir"] == "min" else "maximize"
        i1 = ps.IndicatorFromMathExpression(name="i1", expression=t1._start + t2._end)
        targets = [i1]
        if case["nobj"] == 2:
            targets.append(ps.IndicatorFromMathExpression(name="i2", expression=t2._start * 2))
        objs = []
        for i, ind in enumerate(targets):
            if i == 1 and case.get("default_w2"):
                # declared without a weight, through the indicator-objective classes (which have a default of their own)
                objs.append((ps.ObjectiveMinimizeIndicator if case["dir"] == "min" else ps.ObjectiveMaximizeIndicator)(target=ind))
                continue
            P.assume(P.int(f"w{i+1}") >= 1)
            objs.append(ps.Objective(name=f"o{i+1}", target=ind, weight=P.int(f"w{i+1}"), kind=kind))
        solver = ps.SchedulingSolver(problem=pb, optimizer=case["optimizer"], optimize_priority=case["prio"])
        solver.initialize()
        return dict(pb=pb, solver=solver, objs=objs, targets=targets, kind=kind)

    def clauses(self, P, ctx, case):
        solver, objs, targets = ctx["solver"], ctx["objs"], ctx["targets"]
        G = solver._solver
        is_opt = type(G).__name__ in ("GhostOptimize", "Optimize")
        out = [Clause("selection[z3.Optimize iff an objective is declared and optimizer='optimize']", z3.BoolVal(is_opt == (case["optimizer"] == "optimize")), props=("C07", "C15"), kind="state")]
        if not P.symbolic:
            return out
        A = G.stack()
        d = case["dir"]
        tv = [t._indicator_variable for t in targets]
        ws = [z3.IntVal(1) if (i == 1 and case.get("default_w2")) else T(P.int(f"w{i+1}")) for i in range(len(targets))]
        weighted = z3.Sum([w * v for w, v in zip(ws, tv)])
        if case["optimizer"] == "optimize":
            reg = G.objectives
            if case["nobj"] == 1:
                ok = len(reg) == 1 and reg[0][0] == d
                out.append(Clause("wiring[the single objective is registered with its direction]", And(z3.BoolVal(ok), (reg[0][1] if reg else z3.IntVal(0)) == tv[0]) if ok else z3.BoolVal(False), hyps=A, props=("C07", "C15"), kind="state"))
            elif case["prio"] == "weight":
                ok = len(reg) == 1 and reg[0][0] == d
                out.append(Clause("wiring[the weighted sum of the objectives is registered]", And(z3.BoolVal(ok), (reg[0][1] if reg else z3.IntVal(0)) == weighted) if ok else z3.BoolVal(False), hyps=A, props=("C07", "C15"), kind="state"))
            else:
                ok = len(reg) == len(tv) and all(r[0] == d for r in reg)
                eqs = [r[1] == v for r, v in zip(reg, tv)] if ok else [z3.BoolVal(False)]
                out.append(Clause("wiring[every objective is registered, in order, with its direction]", And(z3.BoolVal(ok), *eqs), hyps=A, props=("C07", "C15"), kind="state"))
                out.append(Clause("wiring[priority mode handed to z3]", z3.BoolVal(G.params.get("priority") == case["prio"]), props=("C07", "C15"), kind="state"))
        else:
            o = solver._objective
            okdir = o is not None and o.kind == ctx["kind"]
            tgt = T(o._target) if o is not None else z3.IntVal(0)
            want = tv[0] if case["nobj"] == 1 else weighted
            out.append(Clause("wiring[incremental: target = (weighted sum of) the declared objective(s), same direction]", And(z3.BoolVal(bool(okdir)), tgt == want), hyps=A, props=("C07", "C15"), kind="state"))
        return out


def _wiring_native_search(case, params, ob):
    """real library: two tasks on one worker, two objectives (completion times) of the case's direction with weights
    1 and 3, chosen so that the weighted optimum differs from the lexicographic one; the case's optimiser /
    priority mode must reach the weighted optimum computed by brute force over the two task orders"""
    import io, contextlib, warnings
    from psvc import runner

    if case["nobj"] != 2 or (case["optimizer"] == "optimize" and case["prio"] != "weight"):
        return {"confirmed": False, "observation": {"not_searched": "only weighted-sum configurations have one optimum"}}
    ps = runner.native_ps()
    mx = case["dir"] == "max"
    with contextlib.redirect_stdout(io.StringIO()), warnings.catch_warnings():
        warnings.simplefilter("ignore")
        pb = ps.SchedulingProblem(name="pb", horizon=5)
        w = ps.Worker(name="w")
        t1 = ps.FixedDurationTask(name="t1", duration=3)
        t2 = ps.FixedDurationTask(name="t2", duration=2)
        t1.add_required_resource(w)
        t2.add_required_resource(w)
        i1 = ps.IndicatorFromMathExpression(name="i1", expression=t1._end)
        i2 = ps.IndicatorFromMathExpression(name="i2", expression=t2._end)
        kind = "maximize" if mx else "minimize"
        ps.Objective(name="o1", target=i1, weight=1, kind=kind)
        ps.Objective(name="o2", target=i2, weight=3, kind=kind)
        kw = dict(optimizer=case["optimizer"])
        if case["optimizer"] == "optimize":
            kw["optimize_priority"] = case["prio"]
        try:
            sol = ps.SchedulingSolver(problem=pb, **kw).solve()
        finally:
            runner.reset_z3_options()
    if not sol:
        return {"confirmed": True, "observation": {"configuration": kw, "result": "no solution for a feasible problem"}}
    got = sol.tasks["t1"].end + 3 * sol.tasks["t2"].end
    # the two orders: t1 then t2 -> ends (3, 5); t2 then t1 -> ends (5, 2): weighted 18 / 11
    best = max(18, 11) if mx else min(18, 11)
    return {"confirmed": got != best, "observation": {"configuration": kw, "weights": [1, 3], "ends": [sol.tasks["t1"].end, sol.tasks["t2"].end], "weighted_value": got, "optimum_by_enumeration": best}}


ObjectiveWiring.native_search = staticmethod(_wiring_native_search)


# ------------------------------------------------------------------------------ C15 / C14 configuration independence
@register
class ConfigIndependence(Contract):
    target = "solver.SchedulingSolver.__init__"
    inlines = ("solver.SchedulingSolver.initialize", "solver.SchedulingSolver.append_z3_assertion")
    props = ("C15", "C14", "C19")
    diff = "eval"

    def cases(self, tier):
        out = []
        for debug in (False, True):
            for parallel in (False, True):
                for rnd in (False, True):
                    for logics in (None, "QF_LIA", "QF_IDL"):
                        for optimizer in ("incremental", "optimize"):
                            for obj in (False, True):
                                if logics == "QF_IDL" and (parallel or rnd):
                                    continue
                                out.append(dict(debug=debug, parallel=parallel, rnd=rnd, logics=logics, optimizer=optimizer, obj=obj))
        # the same on a problem with one element of every kind (buffers of both kinds accessed by an optional task,
        # a cumulative worker, a selection, indicators, a workload, a logical combination): one option at a time
        base = dict(debug=False, parallel=False, rnd=False, logics=None, optimizer="incremental", obj=False, rich=True)
        for change in (dict(parallel=True), dict(rnd=True), dict(debug=True), dict(logics="QF_LIA"), dict(logics="QF_UFLIA"), dict(optimizer="optimize", obj=True), dict(parallel=True, logics="QF_LIA", obj=True)):
            out.append(dict(base, **change))
        # user-chosen names live in the user's namespace: a constraint may be called like an unknown of the model (here
        # the flag of the optional task t2) without the diagnosis mode changing what is asserted
        for optimizer in ("incremental", "optimize"):
            out.append(dict(debug=True, parallel=False, rnd=False, logics=None, optimizer=optimizer, obj=False, named="t2_scheduled"))
        return out

    def scenario(self, ps, P, case):
        pb, t1, t2 = small_problem(ps, P)
        ps.TaskPrecedence(task_before=t1, task_after=t2, offset=P.int("off") if False else 0)
        ps.TaskStartAfter(task=t1, value=P.int("v"), **({"name": case["named"]} if case.get("named") else {}))
        if case.get("rich"):
            w = pb.workers["w"]
            t3 = ps.FixedDurationTask(name="t3", duration=2, optional=True)
            cw = ps.CumulativeWorker(name="cw", size=2)
            t3.add_required_resource(cw)
            t3.add_required_resource(ps.SelectWorkers(list_of_workers=[w, ps.Worker(name="w2")], nb_workers_to_select=1))
            cb = ps.ConcurrentBuffer(name="cb", initial_level=P.int("cb0"), lower_bound=0)
            nb = ps.NonConcurrentBuffer(name="nb", initial_level=P.int("nb0"))
            ps.TaskUnloadBuffer(task=t3, buffer=cb, quantity=2)
            ps.TaskLoadBuffer(task=t1, buffer=cb, quantity=1)
            ps.TaskUnloadBuffer(task=t2, buffer=nb, quantity=1)
            ps.IndicatorResourceUtilization(resource=w)
            ps.IndicatorNumberTasksAssigned(resource=w)
            ps.WorkLoad(resource=w, dict_time_intervals_and_bound={(0, 4): 3})
            ps.Or(list_of_constraints=[ps.TaskStartAt(task=t3, value=1), ps.TaskEndBefore(task=t1, value=P.int("u"))])
        if case["obj"]:
            ps.ObjectiveMinimizeMakespan()
        ref = ps.SchedulingSolver(problem=pb)
        ref.initialize()
        kw = dict(debug=case["debug"], parallel=case["parallel"], random_values=case["rnd"], optimizer=case["optimizer"], verbosity=P.int("verbosity"))
        if case["logics"]:
            kw["logics"] = case["logics"]
        n_before = len(current().events) if P.symbolic else 0
        cfg = ps.SchedulingSolver(problem=pb, **kw)
        events = list(current().events[n_before:]) if P.symbolic else []
        cfg.initialize()
        return dict(pb=pb, ref=ref, cfg=cfg, events=events)

    def clauses(self, P, ctx, case):
        ref, cfg = ctx["ref"], ctx["cfg"]
        out = []
        A_ref, A_cfg = asserted(ref), asserted(cfg)
        # the very same formulas (in any order) is the usual case and needs no solver; otherwise logical equivalence
        same_formulas = sorted(f.get_id() for f in A_cfg) == sorted(f.get_id() for f in A_ref)
        goal = z3.BoolVal(True)
        if not same_formulas:
            # each initialize() draws its own fresh auxiliary constants (sorted copies ...): compared up to their renaming,
            # formula by formula first, as conjunctions otherwise
            from psvc.runner import equivalent_modulo_fresh, _consts_in_order

            ok, why = equivalent_modulo_fresh(A_cfg, A_ref)
            if ok is not True:
                cc, cr = _consts_in_order(A_cfg), _consts_in_order(A_ref)
                nr, nc = {c.decl().name() for c in cr}, {c.decl().name() for c in cc}
                oc, orf = [c for c in cc if c.decl().name() not in nr], [c for c in cr if c.decl().name() not in nc]
                subs = [(a, b) for a, b in zip(oc, orf) if a.sort() == b.sort()] if len(oc) == len(orf) else []
                goal = And(*[z3.substitute(f, *subs) if subs else f for f in A_cfg]) == And(*A_ref)
        out.append(Clause("independence[the asserted set does not depend on the configuration]", goal, props=("C15", "C19"), kind="equals"))
        G = cfg._solver
        kind = type(G).__name__
        want_opt = case["obj"] and case["optimizer"] == "optimize"
        out.append(Clause("selection[Optimize / SolverFor(logic) / Solver]", z3.BoolVal((kind in ("GhostOptimize", "Optimize")) == want_opt), props=("C15",), kind="state"))
        if P.symbolic:
            out.append(Clause("selection[the requested logic is handed to z3]", z3.BoolVal(want_opt or G.logic == case["logics"]), props=("C15",), kind="state"))
            keys = options_set(ctx["events"])
            out.append(Clause("frame[every global z3 option is (re)set by the constructor on this path]", z3.BoolVal(keys == ALL_OPTIONS), props=("C14", "C15"), kind="frame", note=str(sorted(ALL_OPTIONS - keys))))
            if case["debug"]:
                tracked = G.tracked()
                out.append(Clause("debug[every formula is tracked under a name of its own]", z3.BoolVal(len(tracked) == len(G.raw_stack()) and len({n for _, n in tracked}) == len(tracked)), props=("C19", "C15"), kind="state"))
        return out


def _config_native_search(case, params, ob):
    """real library: two small problems (feasible with an objective / infeasible) solved under the case's
    configuration; a returned schedule must be valid for the problem and verdict and optimum must be those of the
    default configuration"""
    import io, contextlib, warnings
    from psvc import runner

    ps = runner.native_ps()

    def run(kw, infeasible, obj):
        with contextlib.redirect_stdout(io.StringIO()), warnings.catch_warnings():
            warnings.simplefilter("ignore")
            pb = ps.SchedulingProblem(name="pb", horizon=9)
            w = ps.Worker(name="w")
            t1 = ps.FixedDurationTask(name="t1", duration=3)
            t2 = ps.FixedDurationTask(name="t2", duration=2)
            t3 = ps.VariableDurationTask(name="t3", min_duration=1, max_duration=3)
            for t in (t1, t2, t3):
                t.add_required_resource(w)
            ps.TaskPrecedence(task_before=t1, task_after=t2, offset=1)
            ps.TaskStartAfter(task=t1, value=1)
            if infeasible:
                ps.TaskEndBefore(task=t2, value=5)
            if obj:
                ps.ObjectiveMinimizeMakespan()
            try:
                sol = ps.SchedulingSolver(problem=pb, **kw).solve()
            finally:
                runner.reset_z3_options()
        if not sol:
            return False, None, None
        T_ = sol.tasks
        iv = sorted((T_[n].start, T_[n].end) for n in T_)
        valid = (
            all(T_[n].start >= 0 and T_[n].end <= sol.horizon and T_[n].end - T_[n].start == T_[n].duration for n in T_)
            and sol.horizon <= 9
            and T_["t1"].duration == 3
            and T_["t2"].duration == 2
            and 1 <= T_["t3"].duration <= 3
            and T_["t1"].end + 1 <= T_["t2"].start
            and T_["t1"].start >= 1
            and all(a[1] <= b[0] for a, b in zip(iv, iv[1:]))
        )
        return True, valid, (sol.horizon if obj else None)

    kw = dict(debug=case["debug"], parallel=case["parallel"], random_values=case["rnd"], optimizer=case["optimizer"])
    if case["logics"]:
        kw["logics"] = case["logics"]
    obs = {}
    for infeasible in (False, True):
        try:
            got = run(kw, infeasible, case["obj"])
            ref = run({}, infeasible, case["obj"])
        except Exception as e:  # noqa
            return {"confirmed": True, "observation": {"configuration": kw, "infeasible_variant": infeasible, "exception": f"{type(e).__name__}: {e}"}}
        obs["infeasible" if infeasible else "feasible"] = {"configured": got, "default": ref}
        if got[0] != ref[0] or (got[0] and not got[1]) or (got[0] and got[2] != ref[2]):
            return {"confirmed": True, "observation": dict(obs, configuration=kw, meaning="(solution returned, valid, optimal horizon)")}
    return {"confirmed": False, "observation": dict(obs, configuration=kw)}


ConfigIndependence.native_search = staticmethod(_config_native_search)


# ------------------------------------------------------------------------------ C19 infeasibility diagnosis
@register
class DebugCore(Contract):
    target = "solver.SchedulingSolver.solve"
    inlines = ("solver.SchedulingSolver.append_z3_assertion", "solver.SchedulingSolver.initialize", "solver.SchedulingSolver.check_sat")
    props = ("C19",)
    diff = "eval"
    bounded = "problems with 2 tasks and 2..3 user constraints; unsat cores: every singleton, every pair and the whole set of tracked assertions"

    def cases(self, tier):
        out = [dict(extra=e, res=r) for e in (0, 1) for r in (False, True)] + [dict(extra=1, res=False, opt=True), dict(extra=0, res=False, ind=True)]
        # the solver initialised again before the solve (e.g. to pick up a constraint declared in between)
        out += [dict(extra=0, res=False, reinit=True), dict(extra=1, res=True, reinit=True)]
        return out

    def scenario(self, ps, P, case):
        pb, t1, t2 = small_problem(ps, P, optional=False, resources=case["res"])
        if case.get("opt"):
            # an optional constraint that a ForceApplyNOptionalConstraints makes compulsory: it can take part in a conflict
            oc = ps.TaskStartAt(task=t2, value=P.int("o"), optional=True, name="maybe")
            ps.ForceApplyNOptionalConstraints(list_of_optional_constraints=[oc], nb_constraints_to_apply=1, name="force")
        if case["extra"]:
            # a constraint used as operand of a connective (it is not handed to the solver on its own), declared first
            ps.Not(constraint=ps.TaskStartAt(task=t2, value=P.int("n")))
        cs = [ps.TaskStartAt(task=t1, value=P.int("a")), ps.TaskStartAt(task=t1, value=P.int("b"), name="second")]
        if case["extra"]:
            cs.append(ps.TaskEndBefore(task=t2, value=P.int("c")))
        if case.get("ind"):
            # constraints on an indicator are constraints of the problem like the others
            ind = ps.IndicatorFromMathExpression(name="span", expression=t1._start + t2._end)
            cs.append(ps.IndicatorBounds(indicator=ind, upper_bound=P.int("ub"), name="bounded"))
            cs.append(ps.IndicatorTarget(indicator=ind, value=P.int("tg"), name="targeted"))
        if case["res"]:
            # a constraint holding several assertions (one per interval and busy interval)
            P.assume(P.int("u") >= 0)
            cs.append(ps.ResourceUnavailable(resource=pb.workers["w"], list_of_time_intervals=[(P.int("u"), P.int("u") + 2), (P.int("u") + 4, P.int("u") + 5)]))
        solver = ps.SchedulingSolver(problem=pb, debug=True, verbosity=any_verbosity(P))
        if case.get("reinit"):
            solver.initialize()
            solver.initialize()
        if P.symbolic:
            printed = []
            solver._psvc_printed = printed
            import builtins

            # capture what the real code prints (the diagnosis is only printed)
            L = ps.__dict__["__builtins__"] if isinstance(ps.__dict__.get("__builtins__"), dict) else None
            if L is not None:
                old = L.get("print")
                L["print"] = lambda *a, **k: printed.append(a)
            try:
                res = solver.solve()
            finally:
                if L is not None:
                    L["print"] = old
        else:
            res = solver.solve()
        return dict(pb=pb, solver=solver, res=res, cs=cs, t1=t1, t2=t2)

    def clauses(self, P, ctx, case):
        solver, pb = ctx["solver"], ctx["pb"]
        out = []
        if not P.symbolic:
            out.append(Clause("native[verdict is False or a solution]", z3.BoolVal(ctx["res"] is False or is_solution(ctx["res"])), props=("C19",), kind="state"))
            return out
        G = solver._solver
        # ground truth, independent of how the solver remembers it: the owner of a tracked formula is the
        # top-level constraint (not used inside a combination) holding it; a formula held by no constraint at all is a
        # basic rule (task, resource, buffer, horizon rules); a formula held only by a constraint that is used inside a
        # combination must not be on the stack on its own
        top = [c for c in pb.constraints.values() if not c._created_from_assertion]
        inner = [c for c in pb.constraints.values() if c._created_from_assertion]
        owner = {}
        basic_ids = set()
        ok, why = True, ""

        def parts(f):
            # a tracked formula may be one assertion of a constraint or the conjunction of several of them
            return {x.get_id() for x in f.children()} if z3.is_and(f) and f.num_args() > 0 else {f.get_id()}

        def holds(c, f):
            mine = {x.get_id() for x in assertions_of(c)}
            return f.get_id() in mine or parts(f) <= mine

        for f, name in G.tracked():
            cands = [c for c in top if holds(c, f)]
            if cands:
                owner[name] = cands[0]
            elif any(holds(c, f) for c in inner):
                ok, why = False, f"tracked formula {f} belongs to a constraint that is only an operand of a combination"
            else:
                owner[name] = None
                basic_ids.add(f.get_id())
        out.append(Clause("invariant[every tracked formula belongs to a top-level constraint or is a basic rule]", z3.BoolVal(ok), props=("C19",), kind="invariant", note=why, bounded=self.bounded))
        # z3's core is a set of tracked assertions that is unsatisfiable *together with everything untracked*: the
        # diagnosis is only about the listed constraints and the basic rules if no user constraint sits there untracked
        loose = [f for fr in G.frames for f, n in fr if n is None and any(holds(c, f) for c in top)]
        out.append(Clause("invariant[no assertion of a user constraint is on the stack untracked]", z3.BoolVal(not loose), props=("C19",), kind="invariant", note=str(loose[:2]), bounded=self.bounded))
        if G.last == z3.unsat and ctx["res"] is False:
            core = getattr(G, "core", [])
            names = [c.name for c in core]
            listed = []
            for a in solver._psvc_printed:
                for x in a:
                    if hasattr(x, "_created_from_assertion"):
                        listed.append(x)
            want = []
            for n in names:  # each owner once, in the order of the core
                if owner.get(n) is not None and not any(owner[n] is w for w in want):
                    want.append(owner[n])
            shown = []
            for x in listed:
                if not any(x is y for y in shown):
                    shown.append(x)
            out.append(Clause("post[the listed constraints are the owners of the core's assertions, all constraints of the problem]", z3.BoolVal([id(x) for x in shown] == [id(x) for x in want] and all(any(x is c for c in pb.constraints.values()) for x in listed)), props=("C19",), kind="sound", bounded=self.bounded))
            # the listed constraints + basic rules contain every formula of the core, hence (solver contract:
            # the core is jointly unsatisfiable) admit no schedule
            by = {n: f for f, n in G.tracked()}
            listed_formulas = {x.get_id() for c in listed for x in assertions_of(c)}
            covered = all((by[n].get_id() in listed_formulas) or parts(by[n]) <= listed_formulas or (by[n].get_id() in basic_ids) for n in names)
            out.append(Clause("post[listed constraints and basic rules cover the unsat core]", z3.BoolVal(covered), props=("C19",), kind="sound", bounded=self.bounded))
        elif is_solution(ctx["res"]):
            m = G.models[-1]
            out.append(Clause("post[debug mode: a returned schedule satisfies every constraint]", And(*[m.rename(f) for f in G.stack()]), props=("C19",), kind="sound"))
        return out


def _debug_native_search(case, params, ob):
    """real library, debug mode: an infeasible problem whose conflict goes through a non-last assertion of a
    constraint holding several assertions; the printed diagnosis must name constraints that, with the basic
    rules, are infeasible on their own"""
    import io, contextlib, re
    from psvc import runner

    ps = runner.native_ps()

    def build(only=None):
        pb = ps.SchedulingProblem(name="pb", horizon=12)
        t1 = ps.FixedDurationTask(name="t1", duration=3)
        w = ps.Worker(name="w")
        t1.add_required_resource(w)
        cs = {}
        if case.get("extra"):
            # a constraint that is only the operand of a connective, declared first (it shifts the ranks of the others)
            cs["not_late"] = lambda: ps.Not(name="not_late", constraint=ps.TaskStartAt(name="inner", task=t1, value=11))
        cs.update({
            "ends_early": lambda: ps.TaskEndBefore(name="ends_early", task=t1, value=5),
            "w_unavailable": lambda: ps.ResourceUnavailable(name="w_unavailable", resource=w, list_of_time_intervals=[(0, 5), (9, 11)]),
            "irrelevant": lambda: ps.TaskStartAfter(name="irrelevant", task=t1, value=0),
        })
        for n, mk_ in cs.items():
            if only is None or n in only:
                mk_()
        return pb

    if case.get("opt"):
        # an optional constraint made compulsory takes part in the conflict: it must be named
        def build(only=None):  # noqa: F811
            pb = ps.SchedulingProblem(name="pb", horizon=12)
            t1 = ps.FixedDurationTask(name="t1", duration=3)
            made = {}
            if only is None or "maybe" in only:
                made["maybe"] = ps.TaskStartAt(name="maybe", task=t1, value=5, optional=True)
            if (only is None or "force" in only) and "maybe" in made:
                ps.ForceApplyNOptionalConstraints(name="force", list_of_optional_constraints=[made["maybe"]], nb_constraints_to_apply=1)
            if only is None or "ends_early" in only:
                ps.TaskEndBefore(name="ends_early", task=t1, value=6)
            return pb

    if case.get("ind"):
        # a bound on an indicator that no schedule can meet: the diagnosis must name it
        def build(only=None):  # noqa: F811
            pb = ps.SchedulingProblem(name="pb", horizon=12)
            t1 = ps.FixedDurationTask(name="t1", duration=3)
            ind = ps.IndicatorFromMathExpression(name="span", expression=t1._end)
            if only is None or "bounded" in only:
                ps.IndicatorBounds(name="bounded", indicator=ind, upper_bound=2)
            if only is None or "irrelevant" in only:
                ps.TaskStartAfter(name="irrelevant", task=t1, value=0)
            return pb

    buf = io.StringIO()
    with contextlib.redirect_stdout(buf):
        dbg = ps.SchedulingSolver(problem=build(), debug=True)
        if case.get("reinit"):
            dbg.initialize()
            dbg.initialize()
        res = dbg.solve()
    text = buf.getvalue()
    # one printed constraint per "->" segment; its own name comes first in the repr (nested constraints follow)
    blamed = set()
    if "Unsatisfied constraints" in text:
        # ("\t -> " in the source; rich's print, when installed, expands the tab)
        for seg in re.split(r"(?m)^[ \t]*-> ", text.split("Unsatisfied constraints")[-1])[1:]:
            m_ = re.search(r"name='([a-z_]+)'", seg)
            if m_:
                blamed.add(m_.group(1))
        blamed &= {"ends_early", "w_unavailable", "irrelevant", "maybe", "force", "bounded", "not_late"}
    with contextlib.redirect_stdout(io.StringIO()):
        alone = ps.SchedulingSolver(problem=build(only=blamed)).solve()
    bad = res is False and bool(alone)
    return {"confirmed": bool(bad), "observation": {"verdict": bool(res), "blamed": sorted(blamed), "blamed_constraints_alone_feasible": bool(alone)}}


DebugCore.native_search = staticmethod(_debug_native_search)


# ------------------------------------------------------------------------------ C12 another solution
def differs(tasks, m_new, m_old):
    ds = []
    for t in tasks:
        ds.append(m_new.value(t._start) != m_old.value(t._start))
        ds.append(m_new.value(t._end) != m_old.value(t._end))
        if t.optional:
            ds.append(m_new.value(t._scheduled) != m_old.value(t._scheduled))
    return Or(*ds)


@register
class AnotherSolution(Contract):
    target = "solver.SchedulingSolver.find_another_solution"
    inlines = ("solver.SchedulingSolver.solve", "solver.SchedulingSolver.find_another_solution_for_variable", "solver.SchedulingSolver.build_solution")
    props = ("C12", "C13")
    diff = "eval"
    bounded = "call sequences solve, find_another* of length <= 3 on problems with 2 tasks; all integers symbolic"

    def cases(self, tier):
        out = []
        for optional in (False, True):
            seqs = [("another",), ("another", "another"), ("variable",), ("variable", "another"), ("another", "variable")]
            if tier == "thorough":
                seqs += [("another", "another", "another"), ("variable", "variable", "another"), ("another", "variable", "another")]
            for seq in seqs:
                out.append(dict(optional=optional, seq=seq))
            # resources whose busy intervals are not fixed by the task timing (a worker chosen by a selection, a worker
            # that may join late): two schedules that differ only there are the same timing
            for res in ("select", "dynamic"):
                for seq in (("another",), ("another", "another")):
                    out.append(dict(optional=optional, seq=seq, res=res))
        return out

    def scenario(self, ps, P, case):
        res = case.get("res", "static")
        pb, t1, t2 = small_problem(ps, P, optional=case["optional"], resources=(res == "static"))
        if res != "static":
            w = ps.Worker(name="w")
            t1.add_required_resource(w)
            if res == "select":
                t2.add_required_resource(ps.SelectWorkers(list_of_workers=[w, ps.Worker(name="w2")], nb_workers_to_select=1))
            else:
                t2.add_required_resource(w, dynamic=True)
        solver = ps.SchedulingSolver(problem=pb, verbosity=any_verbosity(P))
        results = [solver.solve()]
        base = list(asserted(solver))
        models = [solver._model]
        for step in case["seq"]:
            if results[-1] is False:
                break
            if step == "another":
                r = solver.find_another_solution()
            else:
                r = solver.find_another_solution_for_variable(t1._start)
            results.append(r)
            models.append(solver._model)
        return dict(pb=pb, solver=solver, results=results, models=models, base=base, tasks=[t1, t2], t1=t1)

    def clauses(self, P, ctx, case):
        out = []
        results, models, base, tasks = ctx["results"], ctx["models"], ctx["base"], ctx["tasks"]
        if not P.symbolic:
            # native run: distinctness of the reported solutions
            sols = [r for r in results if is_solution(r)]
            sig = [tuple((n, ts.start, ts.end, ts.scheduled) for n, ts in s.tasks.items()) for s in sols]
            onlyanother = all(s == "another" for s in case["seq"])
            out.append(Clause("native[solutions returned by find_another_solution are pairwise different]", z3.BoolVal(len(set(sig)) == len(sig) or not onlyanother), props=("C12",), kind="sound"))
            return out
        G = ctx["solver"]._solver
        out.append(Clause("frame[no scope left open]", sym._term(G.pushed_count()) == 0, props=("C13",), kind="frame"))
        steps = ["solve"] + list(case["seq"])
        for i, r in enumerate(results):
            if i == 0:
                continue
            step = steps[i]
            prev = models[:i]
            if is_solution(r):
                m = models[i]
                out.append(Clause(f"post[{i}:{step}: the new schedule is valid]", And(*[m.rename(f) for f in base]), props=("C12", "C13"), kind="sound", bounded=self.bounded))
                if step == "another":
                    # differs from the current solution, and from every earlier one returned by a find_another_solution
                    out.append(Clause(f"post[{i}:another: differs from the current solution in some start / end / scheduled flag]", differs(tasks, m, prev[-1]), props=("C12",), kind="sound", bounded=self.bounded))
                    if all(s == "another" for s in steps[1:i]):
                        for j, mo in enumerate(prev):
                            out.append(Clause(f"post[{i}:another: differs from solution #{j}]", differs(tasks, m, mo), props=("C12",), kind="sound", bounded=self.bounded))
                else:
                    out.append(Clause(f"post[{i}:variable: the variable takes another value]", m.value(ctx["t1"]._start) != prev[-1].value(ctx["t1"]._start), props=("C12",), kind="sound", bounded=self.bounded))
            elif r is False and G.last == z3.unsat and i == len(results) - 1:
                # fails only when nothing is left: no valid schedule differs from all the excluded ones
                X = ghost.GhostModel(G, 9000 + next(ghost._model_counter), base)
                fact = Not(And(*[X.rename(f) for f in G.unsat_facts[-1]]))
                excl = []
                for j in range(1, i + 1):
                    if steps[j] == "another":
                        excl.append(differs(tasks, X, prev[j - 1]))
                    else:
                        excl.append(X.value(ctx["t1"]._start) != prev[j - 1].value(ctx["t1"]._start))
                goal = Not(And(*[X.rename(f) for f in base], *excl))
                out.append(Clause(f"post[{i}:{step}: fails only when no such schedule is left]", goal, hyps=[fact], props=("C12", "C13"), kind="sound", bounded=self.bounded))
        return out


def _enumerate_native(ps, H, d1, optional, first="another", res="static"):
    """real library: solve, then find_another_solution until it fails; returns the set of reported timings"""
    import io, contextlib

    with contextlib.redirect_stdout(io.StringIO()):
        pb = ps.SchedulingProblem(name="pb", horizon=H)
        t1 = ps.FixedDurationTask(name="t1", duration=d1)
        t2 = ps.VariableDurationTask(name="t2", optional=optional)
        w = ps.Worker(name="w")
        t1.add_required_resource(w)
        if res == "select":
            t2.add_required_resource(ps.SelectWorkers(list_of_workers=[w, ps.Worker(name="w2")], nb_workers_to_select=1))
        elif res == "dynamic":
            t2.add_required_resource(w, dynamic=True)
        else:
            t2.add_required_resource(w)
        solver = ps.SchedulingSolver(problem=pb)
        seen = []
        sol = solver.solve()
        base = list(solver._solver.assertions())
        while sol and len(seen) < 400:
            seen.append(tuple((n, ts.start, ts.end, ts.scheduled) for n, ts in sol.tasks.items()))
            sol = solver.find_another_solution()
    # brute force on the same constraint system: all distinct (start, end, scheduled) timings
    s = z3.Solver()
    s.add(*base)
    keys = [t1._start, t1._end, t2._start, t2._end] + ([t2._scheduled] if optional else [])
    allt = set()
    while s.check() == z3.sat and len(allt) < 400:
        m = s.model()
        vals = [m.eval(k, model_completion=True) for k in keys]
        allt.add(tuple(str(v) for v in vals))
        s.add(z3.Or(*[k != v for k, v in zip(keys, vals)]))
    return seen, allt


def _another_native_search(case, params, ob):
    from psvc import runner

    ps = runner.native_ps()
    H, d1 = params.get("H", 3), params.get("d1", 1)
    for h in sorted({H, min(H + 1, 6), 3, 4}):
        seen, allt = _enumerate_native(ps, h, d1, case["optional"], res=case.get("res", "static"))
        if len(set(seen)) != len(seen) or len(set(seen)) != len(allt):
            return {"confirmed": True, "observation": {"horizon": h, "d1": d1, "optional": case["optional"], "resources": case.get("res", "static"), "enumerated_by_find_another_solution": len(seen), "distinct": len(set(seen)), "valid_timings_by_brute_force": len(allt)}}
    return {"confirmed": False, "observation": {"searched_horizons": sorted({H, min(H + 1, 6), 3, 4})}}


AnotherSolution.native_search = staticmethod(_another_native_search)


@register
class AnotherSolutionNoCurrent(Contract):
    target = "solver.SchedulingSolver.find_another_solution"
    props = ("C12",)

    def cases(self, tier):
        return [dict(m=m) for m in ("another", "variable")]

    def scenario(self, ps, P, case):
        pb, t1, t2 = small_problem(ps, P)
        solver = ps.SchedulingSolver(problem=pb)
        if case["m"] == "another":
            solver.find_another_solution()
        else:
            solver.find_another_solution_for_variable(t1._start)
        return {}

    raises_props = ("C12",)

    def raises(self, P, case):
        return [("AssertionError", z3.BoolVal(True))]


# ------------------------------------------------------------------------------ C13 call sequences
@register
class CallSequences(Contract):
    target = "solver.SchedulingSolver.solve"
    inlines = ("solver.SchedulingSolver.initialize", "solver.SchedulingSolver.export_to_smt2", "solver.SchedulingSolver.check_sat", "solver.SchedulingSolver.find_another_solution", "solver.SchedulingSolver.append_z3_assertion")
    props = ("C13", "C16", "C12", "C07")
    diff = "eval"
    bounded = "sequences of at most 3 public calls on one solver object; problems with 2 tasks"

    def cases(self, tier):
        out = []
        calls = ("initialize", "export", "solve")
        for obj in ("none", "single", "multi", "multi_max"):
            for optimizer in ("incremental", "optimize"):
                if obj == "none" and optimizer == "optimize":
                    continue
                seqs = [("solve", "solve"), ("initialize", "solve"), ("export", "solve"), ("solve", "export", "solve"), ("initialize", "initialize", "solve"), ("second_solver",)]
                # what earlier calls stacked on purpose (a user assertion, the clause that excludes the current
                # solution) must survive the later calls
                seqs += [("initialize", "assert", "export", "solve"), ("initialize", "assert", "solve", "export")]
                if obj == "none":
                    seqs += [("solve", "another", "export", "another"), ("solve", "another", "solve")]
                if tier == "thorough":
                    seqs += [("solve", "solve", "solve"), ("export", "export", "solve", "solve"), ("solve", "initialize", "solve"), ("second_solver", "solve", "export")]
                for seq in seqs:
                    if optimizer == "incremental" and obj != "none":
                        # solve() with the incremental optimiser is covered, for every iteration count, by the
                        # loop contract (IncrementalOptimizer: the loop leaves the stack as it found it)
                        seq = tuple(c for c in seq if c != "solve")
                    d = dict(obj=obj, optimizer=optimizer, seq=seq)
                    if seq and d not in out:
                        out.append(d)
        return out

    def scenario(self, ps, P, case):
        pb, t1, t2 = small_problem(ps, P)
        if case["obj"] in ("single", "multi"):
            ps.ObjectiveMinimizeMakespan()
        if case["obj"] == "multi":
            ps.ObjectiveMinimizeFlowtime()
        if case["obj"] == "multi_max":
            # several objectives, all to be maximised
            i1 = ps.IndicatorFromMathExpression(name="i1", expression=t1._start)
            i2 = ps.IndicatorFromMathExpression(name="i2", expression=t2._end - t1._end)
            ps.Objective(name="o1", target=i1, kind="maximize")
            ps.Objective(name="o2", target=i2, kind="maximize", weight=2)
        kw = dict(optimizer=case["optimizer"])
        if case["optimizer"] == "optimize":
            kw["optimize_priority"] = "weight" if case["obj"] == "multi_max" else "lex"
        kw["verbosity"] = any_verbosity(P)
        solver = ps.SchedulingSolver(problem=pb, **kw)
        reg_before = {k: list(getattr(pb, k)) for k in ("tasks", "workers", "constraints", "indicators", "objectives")}
        results = []
        stacks = []
        extras = []  # what the calls so far stacked on purpose, per call
        extra = []
        first_solver_stack = None
        for call in case["seq"]:
            before = list(asserted(solver)) if solver._solver is not None else []
            if call == "initialize":
                solver.initialize()
                results.append(None)
            elif call == "assert":
                f = t1._start + 1 <= t2._end
                solver.append_z3_assertion(f)
                extra = extra + [f]
                results.append(None)
            elif call == "another":
                if results and results[-1] is False:
                    break
                r = solver.find_another_solution()
                after = list(asserted(solver))
                extra = extra + [g for g in after if not any(g.eq(h) for h in before)]
                results.append(r)
            elif call == "export":
                solver.export_to_smt2("/dev/null")
                results.append(None)
            elif call == "second_solver":
                solver.initialize()
                first_solver_stack = list(asserted(solver))
                s2 = ps.SchedulingSolver(problem=pb, **kw)
                s2.initialize()
                results.append(None)
                solver = s2
            else:
                results.append(solver.solve())
            stacks.append(list(asserted(solver)) if solver._solver is not None else None)
            extras.append(list(extra))
            if P.symbolic and call == "solve" and case["optimizer"] == "incremental" and case["obj"] != "none":
                break
        return dict(pb=pb, solver=solver, results=results, stacks=stacks, extras=extras, reg_before=reg_before, first_solver_stack=first_solver_stack)

    def clauses(self, P, ctx, case):
        out = []
        pb, solver, stacks = ctx["pb"], ctx["solver"], ctx["stacks"]
        if not P.symbolic:
            sols = [r for r in ctx["results"] if r is not None]
            # a feasible problem stays feasible on the second solve (this tiny problem is always feasible
            # when the horizon admits the first solution)
            if len(sols) >= 2 and case["optimizer"] != "optimize":
                out.append(Clause("native[second solve agrees with the first on feasibility]", z3.BoolVal(bool(sols[0]) == bool(sols[1])), props=("C13",), kind="sound"))
            return out
        G = solver._solver
        first = ctx["first_solver_stack"] if ctx.get("first_solver_stack") is not None else next(s for s in stacks if s is not None)
        for i, s in enumerate(stacks):
            if s is None:
                continue
            ex = ctx["extras"][i]
            # the first stack of a sequence that starts with initialize / assert already holds nothing extra
            out.append(Clause(f"invariant[after call {i+1} ({case['seq'][i]}): the stack is the problem's constraint system" + (" and what earlier calls added on purpose]" if ex else "]"), And(*s) == And(*first, *ex), props=("C13", "C12") if ex else (("C13", "C07") if (case["seq"][i] == "second_solver" and case["obj"] != "none") else ("C13",)), kind="invariant", bounded=self.bounded))
        out.append(Clause("invariant[no scope left open]", sym._term(G.pushed_count()) == 0, props=("C13",), kind="invariant", bounded=self.bounded))
        if not case["obj"].startswith("multi") or (case["optimizer"] == "optimize" and case["obj"] == "multi"):
            reg_after = {k: list(getattr(pb, k)) for k in ctx["reg_before"]}
            out.append(Clause("frame[the problem's registries are not changed by the solver]", z3.BoolVal(reg_after == ctx["reg_before"]), props=("C13",), kind="frame", bounded=self.bounded))
        for i, r in enumerate(ctx["results"]):
            if is_solution(r):
                m = G.models[-1] if i == len(ctx["results"]) - 1 else None
        return out


@register
class ConfigAgreementNative(Contract):
    """bounded native layer of C15: on a grid of small problems every configuration that gives a definite
    answer gives the same verdict and the same optimum (z3's own soundness per logic is trusted; this
    exercises the real z3 with the real option settings)"""

    target = "solver.SchedulingSolver.solve"
    props = ("C15",)
    native_only = True
    bounded = "native grid: 4 problems x 27 configurations (not a proof: agreement of z3's answers is z3's)"

    def cases(self, tier):
        return [dict(problem=p) for p in ("feasible", "infeasible", "makespan", "two_objectives")]

    def build(self, ps, case):
        pb = ps.SchedulingProblem(name="pb", horizon=9)
        w = ps.Worker(name="w")
        t1 = ps.FixedDurationTask(name="t1", duration=3)
        t2 = ps.FixedDurationTask(name="t2", duration=2)
        t3 = ps.VariableDurationTask(name="t3", min_duration=1, max_duration=3, optional=True)
        for t in (t1, t2, t3):
            t.add_required_resource(w)
        ps.TaskPrecedence(task_before=t1, task_after=t2, offset=1)
        if case["problem"] == "infeasible":
            ps.TaskEndBefore(task=t2, value=5)
        if case["problem"] in ("makespan", "two_objectives"):
            ps.ObjectiveMinimizeMakespan()
        if case["problem"] == "two_objectives":
            ps.ObjectiveMinimizeFlowtime()
        return pb

    def scenario(self, ps, P, case):
        import io, contextlib, warnings

        results = []
        configs = []
        for optimizer in ("incremental", "optimize"):
            for prio in (("lex",) if optimizer == "incremental" else ("lex", "weight")):
                # only logics that cover these problems (linear integer arithmetic); under QF_IDL/QF_RDL z3 answers
                # `unknown`, which solve() reports as "no solution": the property exempts such answers
                for logics in (None, "QF_LIA", "QF_UFLIA"):
                    for debug, parallel, rnd in ((False, False, False), (True, False, False), (False, True, True)):
                        if logics == "QF_IDL" and case["problem"] in ("makespan",) and optimizer == "incremental" and False:
                            continue
                        configs.append(dict(optimizer=optimizer, optimize_priority=prio, logics=logics, debug=debug, parallel=parallel, random_values=rnd))
        for cfg in configs:
            import processscheduler.base as base

            base.active_problem = None
            pb = self.build(ps, case)
            kw = {k: v for k, v in cfg.items() if v is not None}
            with contextlib.redirect_stdout(io.StringIO()), warnings.catch_warnings():
                warnings.simplefilter("ignore")
                try:
                    sol = ps.SchedulingSolver(problem=pb, max_time=30, **kw).solve()
                    err = None
                except Exception as e:  # noqa
                    sol, err = None, f"{type(e).__name__}: {e}"
            if err:
                results.append((cfg, "error", err))
            elif not sol:
                results.append((cfg, "nosolution", None))
            else:
                flow = sum(t.end for t in sol.tasks.values() if t.scheduled)
                results.append((cfg, "solution", (sol.horizon, flow)))
        return dict(results=results)

    def clauses(self, P, ctx, case):
        res = ctx["results"]
        errs = [(c, d) for c, k, d in res if k == "error"]
        kinds = {k for c, k, d in res if k != "error"}
        out = [Clause("native[no configuration raises]", z3.BoolVal(not errs), props=("C15",), kind="state", bounded=self.bounded, note=str(errs[:2])[:400])]
        out.append(Clause("native[all configurations agree on feasibility]", z3.BoolVal(len(kinds) <= 1), props=("C15",), kind="equals", bounded=self.bounded, note=str(sorted(kinds))))
        if case["problem"] == "makespan":
            opts = {d[0] for c, k, d in res if k == "solution"}
            out.append(Clause("native[all configurations reach the same optimal makespan]", z3.BoolVal(len(opts) <= 1), props=("C15",), kind="equals", bounded=self.bounded, note=str(sorted(opts))))
        if case["problem"] == "two_objectives":
            opts = {d[0] + d[1] for c, k, d in res if k == "solution" and (c["optimizer"] == "incremental" or c["optimize_priority"] == "weight")}
            out.append(Clause("native[weighted-sum configurations reach the same optimum]", z3.BoolVal(len(opts) <= 1), props=("C15",), kind="equals", bounded=self.bounded, note=str(sorted(opts))))
        return out


def _callseq_native_search(case, params, ob):
    """real library: a feasible problem (with the case's objectives) solved by a first solver, then by a second
    solver object on the same problem, then again by the first: the verdicts must agree"""
    import io, contextlib, warnings
    from psvc import runner

    ps = runner.native_ps()
    with contextlib.redirect_stdout(io.StringIO()), warnings.catch_warnings():
        warnings.simplefilter("ignore")
        pb = ps.SchedulingProblem(name="pb", horizon=8)
        t1 = ps.FixedDurationTask(name="t1", duration=3)
        t2 = ps.VariableDurationTask(name="t2", optional=True)
        w = ps.Worker(name="w")
        t1.add_required_resource(w)
        t2.add_required_resource(w)
        if case["obj"] in ("single", "multi"):
            ps.ObjectiveMinimizeMakespan()
        if case["obj"] == "multi":
            ps.ObjectiveMinimizeFlowtime()
        if case["obj"] == "multi_max":
            i1 = ps.IndicatorFromMathExpression(name="i1", expression=t1._start)
            i2 = ps.IndicatorFromMathExpression(name="i2", expression=t2._end - t1._end)
            ps.Objective(name="o1", target=i1, kind="maximize")
            ps.Objective(name="o2", target=i2, kind="maximize", weight=2)
        kw = dict(optimizer=case["optimizer"])
        if case["optimizer"] == "optimize":
            kw["optimize_priority"] = "weight" if case["obj"] == "multi_max" else "lex"
        verdicts = []
        if "assert" in case["seq"] or "another" in case["seq"]:
            # the case's own call sequence on the real library: a user assertion must hold in every schedule returned
            # afterwards; a schedule excluded by find_another_solution must not come back
            try:
                solver = ps.SchedulingSolver(problem=pb, **kw)
                reg_before = {k: sorted(getattr(pb, k)) for k in ("tasks", "workers", "constraints", "indicators", "objectives")}
                asserted_f, seen, obs = False, [], []
                for call in case["seq"] + ("another", "another") * ("another" in case["seq"]):
                    r = None
                    if call == "initialize":
                        solver.initialize()
                    elif call == "export":
                        import tempfile, os

                        d = tempfile.mkdtemp(prefix="psvc-seq-")
                        try:
                            solver.export_to_smt2(os.path.join(d, "p.smt2"))
                        finally:
                            for f in os.listdir(d):
                                os.unlink(os.path.join(d, f))
                            os.rmdir(d)
                    elif call == "assert":
                        solver.append_z3_assertion(t1._start + 1 <= t2._end)  # excludes t2 left out (parked in the past) and t2 before t1
                        asserted_f = True
                    elif call == "solve":
                        r = solver.solve()
                    elif call == "another":
                        r = solver.find_another_solution()
                    if r:
                        sig = tuple((n, ts.start, ts.end, ts.scheduled) for n, ts in r.tasks.items())
                        obs.append((call, sig))
                        if asserted_f and not (r.tasks["t1"].start + 1 <= r.tasks["t2"].end):
                            return {"confirmed": True, "observation": {"sequence": list(case["seq"]), "returned": obs, "violated": "the assertion added with append_z3_assertion (t1.start + 1 <= t2.end) does not hold in the schedule returned afterwards"}}
                        if call == "another" and sig in seen:
                            return {"confirmed": True, "observation": {"sequence": list(case["seq"]), "returned": obs, "violated": "find_another_solution returned a schedule that had been excluded before"}}
                        if call in ("solve", "another"):
                            seen.append(sig)
                reg_after = {k: sorted(getattr(pb, k)) for k in reg_before}
                if reg_after != reg_before and case["obj"] != "multi":
                    grown = {k: [n for n in reg_after[k] if n not in reg_before[k]] for k in reg_before if reg_after[k] != reg_before[k]}
                    return {"confirmed": True, "observation": {"sequence": list(case["seq"]), "violated": "the calls changed the problem object: a solver built later on the same problem sees another problem", "added_to_the_problem": grown}}
                return {"confirmed": False, "observation": {"sequence": list(case["seq"]), "returned": obs}}
            except Exception as e:  # noqa
                return {"confirmed": True, "observation": {"sequence": list(case["seq"]), "exception": f"{type(e).__name__}: {e}"}}
        values = []

        def value(sol):
            # the optimised quantity, where the case has a single well-defined one
            if not sol:
                return None
            if case["obj"] == "single":
                return sol.horizon
            if case["obj"] == "multi_max":
                return sol.indicators["i1"] + 2 * sol.indicators["i2"]
            return None

        try:
            s1 = ps.SchedulingSolver(problem=pb, **kw)
            r = s1.solve()
            verdicts.append(bool(r)), values.append(value(r))
            s2 = ps.SchedulingSolver(problem=pb, **kw)
            r = s2.solve()
            verdicts.append(bool(r)), values.append(value(r))
            r = s1.solve()
            verdicts.append(bool(r)), values.append(value(r))
        except Exception as e:  # noqa
            return {"confirmed": True, "observation": {"verdicts": verdicts, "exception": f"{type(e).__name__}: {e}"}}
    return {"confirmed": len(set(verdicts)) > 1 or len(set(values)) > 1, "observation": {"verdicts_first_second_first": verdicts, "optimised_values_first_second_first": values}}


CallSequences.native_search = staticmethod(_callseq_native_search)


# ------------------------------------------------------------------------------ C12 / C13 after an optimisation (bounded, native)
@register
class EnumerateAfterOptimisation(Contract):
    """bounded native layer of C12 / C13: after a solve() *with an objective* (both optimisers), asking for another
    solution returns valid schedules, each different from all the earlier ones, and fails only when none is left; a
    user assertion added afterwards is honoured.  (Under the engine the optimisation loop is covered by its loop
    contract and the enumeration by problems without objective; this runs the real calls in sequence.)"""

    target = "solver.SchedulingSolver.find_another_solution"
    props = ("C12", "C13")
    native_only = True
    bounded = "native grid: 2 tasks on one worker, horizon 4..5, objectives makespan / start latest, both optimisers, with and without an optional task"

    def cases(self, tier):
        return [dict(obj=o, optimizer=z, optional=p, horizon=h) for o in ("makespan", "start_latest") for z in ("incremental", "optimize") for p in (False, True) for h in (4, 5)]

    def scenario(self, ps, P, case):
        import contextlib
        import io

        with contextlib.redirect_stdout(io.StringIO()):
            pb = ps.SchedulingProblem(name="pb", horizon=case["horizon"])
            w = ps.Worker(name="w")
            t1 = ps.FixedDurationTask(name="t1", duration=2)
            t2 = ps.FixedDurationTask(name="t2", duration=1, optional=case["optional"])
            t1.add_required_resource(w)
            t2.add_required_resource(w)
            (ps.ObjectiveMinimizeMakespan if case["obj"] == "makespan" else ps.ObjectiveTasksStartLatest)()
            solver = ps.SchedulingSolver(problem=pb, optimizer=case["optimizer"])
            seen, ok_valid = [], True
            sol = solver.solve()
            first = bool(sol)
            while sol and len(seen) < 60:
                sig = tuple((n, ts.start, ts.end, ts.scheduled) for n, ts in sol.tasks.items())
                seen.append(sig)
                a, b = sol.tasks["t1"], sol.tasks["t2"]
                ok_valid = ok_valid and a.scheduled and a.end - a.start == 2 and 0 <= a.start and a.end <= case["horizon"]
                if b.scheduled:
                    ok_valid = ok_valid and b.end - b.start == 1 and 0 <= b.start and b.end <= case["horizon"] and (a.end <= b.start or b.end <= a.start)
                else:
                    ok_valid = ok_valid and case["optional"]
                sol = solver.find_another_solution()
        # brute force: every valid timing of the two tasks
        H = case["horizon"]
        alls = set()
        for s1 in range(0, H - 1):
            for s2 in range(0, H):
                if s1 + 2 <= s2 or s2 + 1 <= s1:
                    alls.add((s1, s2))
            if case["optional"]:
                alls.add((s1, None))
        return dict(first=first, seen=seen, ok_valid=ok_valid, total=len(alls))

    def clauses(self, P, ctx, case):
        seen = ctx["seen"]
        return [
            Clause("native[the optimisation finds a schedule of this feasible problem]", z3.BoolVal(ctx["first"]), props=("C13",), kind="sound", bounded=self.bounded),
            Clause("native[every schedule returned after the optimisation is valid]", z3.BoolVal(bool(ctx["ok_valid"])), props=("C12", "C13"), kind="sound", bounded=self.bounded),
            Clause("native[the schedules returned are pairwise different]", z3.BoolVal(len(set(seen)) == len(seen)), props=("C12",), kind="sound", bounded=self.bounded),
            Clause("native[asking for another solution fails only when none is left]", z3.BoolVal(len(set(seen)) == ctx["total"]), props=("C12", "C13"), kind="sound", bounded=self.bounded, note=f"{len(set(seen))} enumerated, {ctx['total']} valid timings"),
        ]


# ------------------------------------------------------------------------------ C13 / C07 repeated optimisation (bounded, native)
@register
class RepeatedOptimisation(Contract):
    """bounded native layer of C13: one solver object asked to solve() again and again (with an objective, both
    optimisers, with and without an iteration limit) answers every time what a fresh solver on a fresh copy of the
    problem answers -- same verdict and, when it runs to the end, same optimised value.  (Under the engine a single run of the optimisation loop is
    covered by its loop contract, for every iteration count; what that contract assumes about the solver *object* at loop
    entry -- nothing is carried over from an earlier call -- is exercised here on the real calls.)"""

    target = "solver.SchedulingSolver.solve"
    props = ("C13", "C07")
    native_only = True
    bounded = "native grid: 3 tasks on one worker, horizon 9, makespan / latest start, both optimisers, max_iter none / 1 / 2 / 4, 6 solves per solver"

    def cases(self, tier):
        return [dict(obj=o, optimizer=z, max_iter=m) for o in ("makespan", "start_latest") for z in ("incremental", "optimize") for m in (None, 1, 2, 4) if not (z == "optimize" and m is not None)]

    def build(self, ps, case):
        pb = ps.SchedulingProblem(name="pb", horizon=9)
        w = ps.Worker(name="w")
        ts = [ps.FixedDurationTask(name=f"t{i+1}", duration=d) for i, d in enumerate((2, 1, 3))]
        for t in ts:
            t.add_required_resource(w)
        ps.TaskPrecedence(task_before=ts[0], task_after=ts[2])
        (ps.ObjectiveMinimizeMakespan if case["obj"] == "makespan" else ps.ObjectiveTasksStartLatest)()
        kw = dict(optimizer=case["optimizer"])
        if case["max_iter"] is not None:
            kw["max_iter"] = case["max_iter"]
        return pb, kw

    @staticmethod
    def value(sol, case):
        if not sol:
            return None
        if case["max_iter"] is not None:
            return "a schedule"  # stopped early: which value is reached after k improvements is not determined
        return sol.horizon if case["obj"] == "makespan" else min(t.start for t in sol.tasks.values())

    def scenario(self, ps, P, case):
        import contextlib
        import io
        import processscheduler.base as base

        with contextlib.redirect_stdout(io.StringIO()):
            base.active_problem = None
            pb, kw = self.build(ps, case)
            ref = self.value(ps.SchedulingSolver(problem=pb, **kw).solve(), case)
            base.active_problem = None
            pb, kw = self.build(ps, case)
            solver = ps.SchedulingSolver(problem=pb, **kw)
            got = [self.value(solver.solve(), case) for _ in range(6)]
        return dict(ref=ref, got=got)

    def clauses(self, P, ctx, case):
        return [Clause("native[each of six solve() calls on one solver answers what a fresh solver answers]", z3.BoolVal(all(g == ctx["ref"] for g in ctx["got"])), props=("C13", "C07"), kind="sound", bounded=self.bounded, note=f"fresh solver: {ctx['ref']}; the same solver six times: {ctx['got']}")]
