"""Contracts on the pure helpers of util.py and resource.py that the encoders build on
(C03, C04, C08, C09, C02): sort_no_duplicates, sort_duplicates, get_maximum, get_minimum,
_distribute_p_over_n.  List lengths are bounded (stated per contract); all values symbolic."""
import itertools

import z3

from psvc.contract import Contract, Clause, register, T, And, Or, Not, Implies, If
from psvc import spec


def util_fn(ps, name):
    return ps.SchedulingSolver.__init__.__globals__[name] if name in ps.SchedulingSolver.__init__.__globals__ else getattr(__import__("processscheduler.util", fromlist=[name]), name)


def util_module_fn(ps, name):
    import types

    mod = getattr(ps, "util", None)
    if isinstance(mod, types.ModuleType) and hasattr(mod, name):
        return getattr(mod, name)
    return util_fn(ps, name)


@register
class SortNoDuplicates(Contract):
    optional_target = True  # a lemma about an internal helper of util.py
    target = "util.sort_no_duplicates"
    props = ("C03", "C04", "C08", "C09")
    bounded = "lists of 1..5 unknowns (quick) / 1..6 (thorough)"

    def cases(self, tier):
        return [dict(n=n) for n in ((1, 2, 3, 4, 5) if tier == "quick" else (1, 2, 3, 4, 5, 6))]

    def scenario(self, ps, P, case):
        f = util_module_fn(ps, "sort_no_duplicates")
        xs = [z3.Int(f"x{i}") for i in range(case["n"])]
        a, cs = f(list(xs))
        return dict(xs=xs, a=a, cs=cs)

    def clauses(self, P, ctx, case):
        xs, a, cs = ctx["xs"], ctx["a"], ctx["cs"]
        n = len(xs)
        C = And(*cs)
        sorted_perm = And(
            *[a[i] < a[i + 1] for i in range(n - 1)],
            *[Or(*[a[i] == x for x in xs]) for i in range(n)],
            *[Or(*[x == a[i] for i in range(n)]) for x in xs],
        )
        distinct = And(*[x != y for x, y in itertools.combinations(xs, 2)])
        out = [
            Clause("returns[fresh list of the same length]", z3.BoolVal(len(a) == n and all(not any(y.eq(x) for x in xs) for y in a)), props=self.props, kind="state", bounded=self.bounded),
            Clause("sound[constraints => a is the strictly increasing rearrangement of xs, xs pairwise distinct]", And(sorted_perm, distinct), hyps=[C], props=self.props, kind="sound", bounded=self.bounded),
        ]
        # completeness: for pairwise distinct xs some a satisfies the constraints (witness for n <= 3: min/mid/max)
        if n <= 3:
            if n == 1:
                wit = [(a[0], xs[0])]
            elif n == 2:
                wit = [(a[0], spec.zmin(xs[0], xs[1])), (a[1], spec.zmax(xs[0], xs[1]))]
            else:
                lo = spec.zmin(xs[0], spec.zmin(xs[1], xs[2]))
                hi = spec.zmax(xs[0], spec.zmax(xs[1], xs[2]))
                wit = [(a[0], lo), (a[2], hi), (a[1], xs[0] + xs[1] + xs[2] - lo - hi)]
            out.append(Clause("complete[distinct xs => the constraints are satisfiable]", z3.substitute(C, *wit), hyps=[distinct], props=("C05",) + tuple(self.props), kind="complete", bounded=self.bounded))
        return out

    props = ("C03", "C04", "C05", "C08", "C09")


@register
class SortDuplicates(Contract):
    optional_target = True  # a lemma about an internal helper of util.py
    target = "util.sort_duplicates"
    props = ("C09",)
    bounded = "lists of 1..4 unknowns (quick) / 1..5 (thorough)"

    def cases(self, tier):
        return [dict(n=n) for n in ((1, 2, 3, 4) if tier == "quick" else (1, 2, 3, 4, 5))]

    def scenario(self, ps, P, case):
        f = util_module_fn(ps, "sort_duplicates")
        xs = [z3.Int(f"x{i}") for i in range(case["n"])]
        ys, cs = f(list(xs))
        return dict(xs=xs, ys=ys, cs=cs)

    def clauses(self, P, ctx, case):
        xs, ys, cs = ctx["xs"], ctx["ys"], ctx["cs"]
        n = len(xs)
        v = z3.Int("v_any")
        same_multiset = z3.Sum([If(x == v, 1, 0) for x in xs]) == z3.Sum([If(y == v, 1, 0) for y in ys])
        asc = And(*[ys[i] <= ys[i + 1] for i in range(n - 1)])
        return [
            Clause("sound[constraints => ys is the ascending rearrangement of xs (same multiset)]", And(asc, same_multiset), hyps=cs, props=self.props, kind="sound", bounded=self.bounded),
            Clause("state[as many outputs as inputs]", z3.BoolVal(len(ys) == n), props=self.props, kind="state"),
        ]


class ExtremumBase(Contract):
    optional_target = True  # a lemma about an internal helper of util.py
    props = ("C08", "C09")
    bounded = "lists of 1..4 values"
    fn = None
    raises_props = ("C08",)

    def cases(self, tier):
        return [dict(n=n) for n in (0, 1, 2, 3, 4)]

    def scenario(self, ps, P, case):
        f = util_module_fn(ps, self.fn)
        xs = [z3.Int(f"x{i}") for i in range(case["n"])]
        m = z3.Int("m")
        return dict(xs=xs, m=m, cs=f(m, list(xs)))

    def raises(self, P, case):
        return [("AssertionError", z3.BoolVal(case["n"] == 0))]

    def clauses(self, P, ctx, case):
        xs, m, cs = ctx["xs"], ctx["m"], ctx["cs"]
        if self.fn == "get_maximum":
            want = And(Or(*[m == x for x in xs]), *[m >= x for x in xs])
        else:
            want = And(Or(*[m == x for x in xs]), *[m <= x for x in xs])
        return [Clause("equals[the assertions say exactly: m is the extremum of the list]", And(*cs) == want, props=self.props, kind="equals", bounded=self.bounded)]


@register
class GetMaximum(ExtremumBase):
    target = "util.get_maximum"
    fn = "get_maximum"


@register
class GetMinimum(ExtremumBase):
    target = "util.get_minimum"
    fn = "get_minimum"


@register
class DistributePOverN(Contract):
    optional_target = True  # a lemma about a private helper
    target = "resource._distribute_p_over_n"
    props = ("C02",)
    bounded = "n in 1..6 (the number of unit workers is a structural parameter); p symbolic"

    def cases(self, tier):
        return [dict(n=n, kind=k) for n in (1, 2, 3, 4, 5, 6) for k in ("int", "constant_function", "none")]

    def scenario(self, ps, P, case):
        f = ps.CumulativeWorker.__init__.__globals__["_distribute_p_over_n"]
        if case["kind"] == "none":
            return dict(res=f(None, case["n"]), p=None)
        p = P.int("p")
        P.assume(p >= 0)
        arg = p if case["kind"] == "int" else ps.ConstantFunction(value=p)
        return dict(res=f(arg, case["n"]), p=p)

    def clauses(self, P, ctx, case):
        res = ctx["res"]
        if case["kind"] == "none":
            return [Clause("returns[n times None]", z3.BoolVal(res == [None] * case["n"]), props=self.props, kind="equals")]
        p = T(ctx["p"])
        return [Clause("returns[n non-negative shares that sum to p]", And(z3.BoolVal(len(res) == case["n"]), z3.Sum([T(x) for x in res]) == p, *[T(x) >= 0 for x in res]), props=self.props, kind="equals", bounded=self.bounded)]
